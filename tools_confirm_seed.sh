#!/bin/bash
# usage: tools_confirm_seed.sh <srcdir> <seedname> <prop> <pkgdir-for-demo> <needs...>
# Confirms a seeded change in the scratch worktree /tmp/mut: patch applies, builds, baseline suite passes with it,
# demonstration fails with it and passes without it. On success copies it to /verif/seeded/<seedname>/ with meta.json.
export GOFLAGS=-mod=mod GOPROXY=off GOSUMDB=off GOTOOLCHAIN=local
SRC=$1; NAME=$2; PROP=$3; PKG=$4; shift 4; NEEDS="$*"
cd /tmp/mut || exit 3
git checkout -q -- . ; git clean -fdq
DEMOS=$(ls $SRC/*_test.go 2>/dev/null)
[ -z "$DEMOS" ] && { echo "no demo test files in $SRC"; exit 3; }
git apply "$SRC/patch.diff" || { echo "PATCH DOES NOT APPLY"; exit 3; }
go build ./... || { echo "BUILD FAILS"; git checkout -q -- .; exit 3; }
(unset GOFLAGS; go test -vet=off -count=1 ./... >/tmp/mut.base.log 2>&1) || { echo "BASELINE FAILS with patch"; grep -E "^(---|FAIL)" /tmp/mut.base.log | head; git checkout -q -- .; exit 3; }
cp $DEMOS $PKG/
RUNRE=$(grep -ho "^func Test[A-Za-z0-9_]*" $DEMOS | sed 's/func //' | paste -sd'|')
go test -vet=off -count=1 -run "^($RUNRE)\$" ./$PKG >/tmp/mut.demo1.log 2>&1; RC1=$?
git checkout -q -- .
go test -vet=off -count=1 -run "^($RUNRE)\$" ./$PKG >/tmp/mut.demo2.log 2>&1; RC2=$?
git clean -fdq
echo "demo with patch rc=$RC1 (want !=0), without patch rc=$RC2 (want 0)"
if [ $RC1 -ne 0 ] && [ $RC2 -eq 0 ]; then
  D=/verif/seeded/$NAME; mkdir -p $D; cp $SRC/patch.diff $D/; cp $DEMOS $D/; [ -f $SRC/README.md ] && cp $SRC/README.md $D/agent-README.md
  python3 - "$D" "$PROP" "$PKG" "$NEEDS" "$RUNRE" <<'PY'
import json,sys
d,prop,pkg,needs,runre=sys.argv[1:6]
json.dump({"property":prop,"demo_package_dir":pkg,"demo_tests":runre,"needs_to_manifest":needs,
 "confirmed":{"patch_applies":True,"go_build":"pass","baseline_suite_with_patch":"pass (go test -vet=off -count=1 ./...)",
  "demo_with_patch":"FAIL","demo_without_patch":"pass",
  "how":"tools_confirm_seed.sh in scratch worktree /tmp/mut (git worktree of /repo HEAD), removed afterwards"},
 "caught_by":None},open(d+"/meta.json","w"),indent=1)
PY
  echo "KEPT $D"
else
  tail -15 /tmp/mut.demo1.log; tail -5 /tmp/mut.demo2.log; echo "NOT KEPT"
fi

//go:build verif

package headers

import (
	"strings"
	"bufio"
	"bytes"
	"fmt"
	"io"
	"testing"
	"unicode/utf8"

	"gopkg.in/yaml.v1"
	"pgregory.net/rapid"
	kit "verifkit"
)

// C14 (header part): every field the camera daemon sends round-trips however the bytes are split
// into reads, nothing beyond the blank line is consumed, and a truncated header is an error.

type vfHdrCase struct {
	ResX, ResY, FPS, FrameSize, Serial int
	Brand, Model, Firmware             string
	Trailing                           []byte `json:"trailing"` // bytes that follow the header (frames)
	Chunks                             []int  `json:"chunks"`   // sizes of the successive socket reads (cycled)
	// NoFirmware / NoSerial: the daemon could not read that value from the camera and leaves the key out (or
	// sends it empty): the description then says "" / 0 for it, nothing invented
	NoFirmware int `json:"no_firmware,omitempty"` // 1: key absent, 2: key present with a null value
	NoSerial   bool `json:"no_serial,omitempty"`
}

// vfChunkReader hands out at most the next chunk size per Read, like a socket delivering segments.
type vfChunkReader struct {
	data   []byte
	chunks []int
	i      int
	reads  int
}

func (r *vfChunkReader) Read(p []byte) (int, error) {
	r.reads++
	if len(r.data) == 0 {
		return 0, io.EOF
	}
	n := 1 << 20
	if len(r.chunks) > 0 {
		n = r.chunks[r.i%len(r.chunks)]
		r.i++
		if n < 1 {
			n = 1
		}
	}
	if n > len(p) {
		n = len(p)
	}
	if n > len(r.data) {
		n = len(r.data)
	}
	copy(p, r.data[:n])
	r.data = r.data[n:]
	return n, nil
}

var vfHostile = []string{"true", "false", "null", "~", "123", "1.5", "0x1F", "1e3", "yes", "no", "on", "off", "- ", "- a", "a: b", "#", "# c", "'", "\"", "''", "\"\"",
	" lead", "trail ", " ", "", "lepton3", "lepton3.5", "boson", "flir", "1.2.3", "0.0.0", "007", "-1", "+1", ".5", "1_000", "0o17", "0b1", "Y", "N", "=", "<<", "!!str x", "&a", "*a", "[a]", "{a: b}", "|", ">", "%", "@", "`", "a,b", "a:b", "key:", ":", "?", "? a", "-", "--- ", "...",
	"2001-01-01", "12:30:45", "é", "日本語", " nbsp", "tab\there", "back\\slash", "\u2028", "\u0085", "\ufeff", "NaN", ".inf", "null ", "True", "NULL"}

func vfGenHdrString(t *rapid.T, label string) string {
	switch rapid.IntRange(0, 4).Draw(t, label+"_kind") {
	case 4:
		// long values with blanks: the camera daemon's YAML encoder folds them over several indented lines
		n := rapid.IntRange(70, 250).Draw(t, label+"_len")
		var b []byte
		for len(b) < n {
			w := rapid.StringMatching(`[a-zA-Z0-9._\-]{1,12}`).Draw(t, label+"_w")
			if len(b) > 0 {
				b = append(b, ' ')
			}
			b = append(b, w...)
		}
		if len(b) > 255 {
			b = b[:255]
		}
		return strings.TrimRight(string(b), " ")
	case 0:
		return rapid.SampledFrom(vfHostile).Draw(t, label)
	case 1:
		return rapid.StringMatching(`[a-zA-Z0-9 ._:#'"\-]{0,40}`).Draw(t, label)
	case 2:
		s := rapid.StringN(0, 60, 255).Draw(t, label)
		return vfSingleLine(s)
	default:
		return rapid.SampledFrom(vfHostile).Draw(t, label+"a") + rapid.SampledFrom(vfHostile).Draw(t, label+"b")
	}
}

// vfSingleLine removes the characters that would make the value span lines: a value containing an
// empty line cannot be carried by a blank-line terminated header and no camera daemon produces one.
func vfSingleLine(s string) string {
	out := make([]rune, 0, len(s))
	for _, r := range s {
		if r == '\n' || r == '\r' || r == utf8.RuneError {
			continue
		}
		out = append(out, r)
	}
	if len(string(out)) > 255 {
		return string(out[:60])
	}
	return string(out)
}

func vfGenHdr(t *rapid.T) vfHdrCase {
	c := vfHdrCase{}
	c.ResX = rapid.SampledFrom([]int{160, 320, 640, 2, 16, 80}).Draw(t, "resx")
	c.ResY = rapid.SampledFrom([]int{120, 256, 512, 2, 12, 60}).Draw(t, "resy")
	c.FPS = rapid.IntRange(1, 60).Draw(t, "fps")
	if rapid.Bool().Draw(t, "lepton") {
		c.FrameSize = 640 + 2*c.ResX*c.ResY
	} else {
		c.FrameSize = 2 * c.ResX * c.ResY
	}
	c.Serial = rapid.OneOf(rapid.SampledFrom([]int{0, 1, 12345, 2147483647, 4294967295}), rapid.IntRange(0, 4294967295)).Draw(t, "serial")
	c.Brand = vfGenHdrString(t, "brand")
	c.Model = vfGenHdrString(t, "model")
	c.Firmware = vfGenHdrString(t, "firmware")
	c.Trailing = rapid.SliceOfN(rapid.Byte(), 0, 64).Draw(t, "trailing")
	if rapid.Bool().Draw(t, "trailing_tricky") {
		c.Trailing = append([]byte(rapid.SampledFrom([]string{"\n", "\n\n", " \n", "clear", "ResX: 1\n\n", "a: b\n"}).Draw(t, "tricky")), c.Trailing...)
	}
	c.Chunks = rapid.SliceOfN(rapid.SampledFrom([]int{1, 1, 2, 3, 5, 7, 16, 64, 4096, 100000}), 0, 6).Draw(t, "chunks")
	if rapid.IntRange(0, 9).Draw(t, "missing") == 0 {
		c.NoFirmware = rapid.IntRange(1, 2).Draw(t, "nofirmware")
		c.Firmware = ""
		if rapid.Bool().Draw(t, "noserial") {
			c.NoSerial, c.Serial = true, 0
		}
	}
	return c
}

// vfEncode is what cmd/leptond's sendCameraSpecs puts on the socket: yaml.v1 of the map, then "\n".
func vfEncode(c vfHdrCase) ([]byte, error) {
	m := map[string]interface{}{
		XResolution: c.ResX, YResolution: c.ResY, FrameSize: c.FrameSize, Model: c.Model, Brand: c.Brand,
		FPS: c.FPS, Serial: c.Serial, Firmware: c.Firmware,
	}
	switch c.NoFirmware {
	case 1:
		delete(m, Firmware)
	case 2:
		m[Firmware] = nil
	}
	if c.NoSerial {
		delete(m, Serial)
	}
	b, err := yaml.Marshal(m)
	if err != nil {
		return nil, err
	}
	return append(b, '\n'), nil
}

func vfRunHdr(c vfHdrCase) *kit.Result {
	r := &kit.Result{}
	for _, s := range []string{c.Brand, c.Model, c.Firmware} {
		if !utf8.ValidString(s) || bytes.ContainsAny([]byte(s), "\n\r") || len(s) > 600 {
			r.Failf("malformed case: strings must be single-line valid UTF-8")
			return r
		}
	}
	if c.FPS < 1 || c.ResX < 1 || c.ResY < 1 || c.Serial < 0 || len(c.Trailing) > 1<<16 {
		r.Failf("malformed case")
		return r
	}
	hdr, err := vfEncode(c)
	if err != nil {
		r.Failf("the camera daemon's encoder rejects the description: %v", err)
		return r
	}
	stream := append(append([]byte{}, hdr...), c.Trailing...)
	cr := &vfChunkReader{data: stream, chunks: c.Chunks}
	br := bufio.NewReader(cr)
	h, err := ReadHeaderInfo(br)
	if err != nil || h == nil {
		r.Failf("ReadHeaderInfo failed on a complete header: %v\nheader bytes: %q", err, hdr)
		return r
	}
	type fields struct {
		ResX, ResY, FPS, FrameSize, Serial int
		Brand, Model, Firmware             string
	}
	got := fields{h.ResX(), h.ResY(), h.FPS(), h.FrameSize(), h.CameraSerial(), h.Brand(), h.Model(), h.Firmware()}
	want := fields{c.ResX, c.ResY, c.FPS, c.FrameSize, c.Serial, c.Brand, c.Model, c.Firmware}
	if got != want {
		r.Failf("header does not round-trip: got %#v, sent %#v\nheader bytes: %q", got, want, hdr)
		return r
	}
	rest, _ := io.ReadAll(br)
	if !bytes.Equal(rest, c.Trailing) {
		r.Failf("after the header %d bytes remain readable %q, the sender wrote %d bytes %q after the blank line (the header parser must consume nothing beyond it); chunks %v", len(rest), vfShort(rest), len(c.Trailing), vfShort(c.Trailing), c.Chunks)
		return r
	}
	// truncation at every byte offset: error, no partial description, bounded number of reads
	for k := 0; k < len(hdr); k++ {
		tr := &vfChunkReader{data: append([]byte{}, hdr[:k]...), chunks: c.Chunks}
		th, terr := ReadHeaderInfo(bufio.NewReader(tr))
		if terr == nil || th != nil {
			r.Failf("header truncated after %d of %d bytes: got info=%v err=%v, want an error and no camera description\nprefix: %q", k, len(hdr), th != nil, terr, hdr[:k])
			return r
		}
		if tr.reads > k+8 {
			r.Failf("header truncated after %d bytes: %d reads issued (no progress)", k, tr.reads)
			return r
		}
	}
	hostile := 0
	for _, s := range []string{c.Brand, c.Model, c.Firmware} {
		if !vfPlainSafe(s) {
			hostile++
		}
	}
	if hostile > 0 {
		r.Class("yaml_ambiguous_string")
	}
	if len(c.Chunks) > 0 {
		r.Class("chunked")
	}
	r.NT = hostile > 0
	return r
}

// vfPlainSafe reports whether the string, written into YAML without quoting, would come back as the
// same string (used only to classify cases; the old yaml.v1 scanner can panic on odd input).
func vfPlainSafe(s string) (ok bool) {
	defer func() {
		if recover() != nil {
			ok = false
		}
	}()
	m := map[string]interface{}{}
	if yaml.Unmarshal([]byte("k: "+s+"\n"), &m) != nil {
		return false
	}
	v, isStr := m["k"].(string)
	return isStr && v == s
}

func vfShort(b []byte) []byte {
	if len(b) > 48 {
		return b[:48]
	}
	return b
}

func TestVF_C14_Header(t *testing.T) {
	kit.Drive(t, "C14", "TestVF_C14_Header",
		"generated: camera descriptions {ResX, ResY, FPS>=1, FrameSize consistent with the format, CameraSerial, Brand, Model, Firmware} with single-line Unicode strings including YAML-hostile tokens, encoded exactly as the camera daemon does (yaml.v1 Marshal of the map + blank line), followed by arbitrary frame bytes, delivered in reads of generated sizes (1 byte .. everything at once). Oracle: all eight fields round-trip; the bytes after the blank line are still readable from the same bufio.Reader, exactly; truncating the header at every byte offset yields an error and no description within a bounded number of reads. Non-trivial: at least one string that plain YAML would not return as the same string.",
		vfGenHdr, vfRunHdr)
}

var _ = fmt.Sprint

func FuzzVF_C14_Header(f *testing.F) {
	kit.DriveFuzz(f, "C14", "FuzzVF_C14_Header", "native coverage-guided fuzzing (go test -fuzz) of the byte stream behind the generator of TestVF_C14_Header, same oracle", vfGenHdr, vfRunHdr)
}

//go:build verif

package motion

import (
	"fmt"
	"testing"

	"pgregory.net/rapid"
	kit "verifkit"
)

// ---------------------------------------------------------------------------------------------
// C12: sinks see well-formed call sequences under any fault plan; no panic; recovery afterwards.

type vfC12Case struct {
	Rec    vfRecCase `json:"rec"`
	Suffix int       `json:"suffix"` // index of the first event of the fault-recovery suffix
	Blip   int       `json:"blip"`   // index of the first motion frame of the suffix
}

func vfGenC12(t *rapid.T) vfC12Case {
	o := vfRecGenOpt{bad: true, reset: true, test: true, maxEv: 200, cont: 1, variants: false, scale: true}
	c := vfRecCase{Cfg: vfGenRecCfg(t, o)}
	c.Cfg.Cont = rapid.Bool().Draw(t, "cont")
	c.Ev = vfGenEvents(t, c.Cfg, o)
	// extra test requests, also while a test recording is running
	if rapid.Bool().Draw(t, "moretests") && len(c.Ev) > 0 {
		n := rapid.IntRange(1, 3).Draw(t, "ntests")
		for i := 0; i < n; i++ {
			at := rapid.IntRange(0, len(c.Ev)).Draw(t, "testat")
			c.Ev = append(c.Ev[:at], append([]vfEv{{K: vfEvTest, T: 12*3600 + 1800}}, c.Ev[at:]...)...)
		}
	}
	f := &c.Faults
	f.Check = vfGenOrdinals(t, "check", 5)
	f.MStart = vfGenOrdinals(t, "mstart", 4)
	f.MWrite = vfGenOrdinals(t, "mwrite", 30)
	f.MStop = vfGenOrdinals(t, "mstop", 4)
	f.CStart = vfGenOrdinals(t, "cstart", 6)
	f.CWrite = vfGenOrdinals(t, "cwrite", 40)
	f.CStop = vfGenOrdinals(t, "cstop", 6)
	f.TStart = vfGenOrdinals(t, "tstart", 2)
	f.TWrite = vfGenOrdinals(t, "twrite", 30)
	f.TStop = vfGenOrdinals(t, "tstop", 2)
	if rapid.IntRange(0, 9).Draw(t, "dense") == 0 {
		// a burst of consecutive write failures (a disk that stays full for a while)
		from := rapid.IntRange(0, 20).Draw(t, "burstfrom")
		for i := 0; i < rapid.IntRange(3, 40).Draw(t, "burstlen"); i++ {
			f.MWrite = append(f.MWrite, from+i)
		}
	}
	return vfC12Finish(c)
}

// vfC12Finish appends the recovery suffix: still frames that flush everything, then a blip that must
// be recorded normally.
func vfC12Finish(c vfRecCase) vfC12Case {
	g := c.Cfg
	ring := g.Preview*g.FPS + g.Trigger
	trig := g.Trigger
	if trig < 1 {
		trig = 1
	}
	out := vfC12Case{Suffix: len(c.Ev)}
	T := int64(12*3600 + 1800)
	if g.WinStart != g.WinEnd {
		T = int64(g.WinStart)*60 + 7
	}
	for i := 0; i < g.Max*g.FPS+ring+30; i++ {
		c.Ev = append(c.Ev, vfEv{K: vfEvFrame, T: T})
	}
	out.Blip = len(c.Ev)
	for i := 0; i < trig; i++ {
		c.Ev = append(c.Ev, vfEv{K: vfEvFrame, M: true, T: T})
	}
	for i := 0; i < g.Min*g.FPS+3; i++ {
		c.Ev = append(c.Ev, vfEv{K: vfEvFrame, T: T})
	}
	out.Rec = c
	return out
}

func vfRunC12(c vfC12Case) *kit.Result {
	r := &kit.Result{}
	if msg := vfValidRecCase(c.Rec); msg != "" || c.Suffix < 0 || c.Blip < c.Suffix || c.Blip > len(c.Rec.Ev) {
		r.Failf("malformed case: %s", msg)
		return r
	}
	run := vfDrive(c.Rec, nil)
	tr := run.tr
	fail := func(format string, a ...interface{}) *kit.Result {
		r.Failf(format, a...)
		r.Err += "\n  trace:" + vfTraceString(tr, 120)
		return r
	}
	if run.panicked != "" {
		return fail("%s", run.panicked)
	}
	// 1. bracket protocol on all three sinks
	var recsM []vfRec
	for _, s := range []byte{'m', 'c', 't'} {
		recs, msg := vfBrackets(tr, s)
		if msg != "" {
			return fail("%s", msg)
		}
		if s == 'm' {
			recsM = recs
		}
	}
	// 2. no sink ever receives a frame that was rejected
	faultsReached, lastFaultEv := 0, -1
	for _, cl := range tr.calls {
		if cl.C == 'W' && cl.ID < 0 {
			return fail("sink %c received the bad frame of event %d", cl.S, cl.Ev)
		}
		if cl.Err {
			faultsReached++
			if cl.Ev > lastFaultEv {
				lastFaultEv = cl.Ev
			}
		}
	}
	// 2b. a camera reset restarts detection whatever the sinks return: the first frame after it is never motion
	afterReset := false
	for i, e := range c.Rec.Ev {
		switch e.K {
		case vfEvReset:
			afterReset = true
		case vfEvFrame:
			if afterReset && tr.motion[i] {
				return fail("the first frame after the camera reset (event %d) was reported as motion: detection was not restarted", i)
			}
			afterReset = false
		}
	}
	a := vfAnalyse(c.Rec, run)
	// 3. even with failing writes a recording never runs past its limit (the limit counts frames, not successes)
	for k, rec := range recsM {
		t, ok := a.trigID(rec)
		if !ok {
			continue
		}
		L, lm := 0, 1
		for _, id := range rec.IDs {
			if id < t {
				continue
			}
			L++
			if a.motion(id) {
				lm = L
			}
			lim := lm - 1 + a.minF
			if a.maxF < lim {
				lim = a.maxF
			}
			if lim < 1 {
				lim = 1
			}
			if L > lim {
				return fail("motion recording %d (trigger frame %d) was offered %d frames from the trigger although its limit (%d) had been reached: a storage fault must not lengthen a recording", k, t, L, lim)
			}
		}
	}
	// 4. recovery: after the flush the blip must be recorded exactly as on a fault-free processor
	if lastFaultEv < c.Suffix {
		var got []vfRec
		prevLast := -1
		for _, rec := range recsM {
			if rec.StartEv >= c.Blip {
				got = append(got, rec)
			} else if len(rec.IDs) > 0 {
				prevLast = rec.IDs[len(rec.IDs)-1]
				if rec.StopEv < 0 || rec.StopEv >= c.Blip {
					return fail("recovery: the motion recording started at event %d is still open when the recovery blip begins (event %d)", rec.StartEv, c.Blip)
				}
			}
		}
		trig := a.trig
		wantTrigEv := c.Blip + trig - 1
		if len(got) != 1 {
			return fail("recovery: after the last fault (event %d) a motion run of %d frames at events %d.. produced %d recordings, want 1", lastFaultEv, trig, c.Blip, len(got))
		}
		rec := got[0]
		if rec.StartEv != wantTrigEv {
			return fail("recovery: recording started at event %d, want %d", rec.StartEv, wantTrigEv)
		}
		t := run.idOf[wantTrigEv]
		first := t - (a.ring - 1)
		if first < prevLast+1 {
			first = prevLast + 1
		}
		if first < 0 {
			first = 0
		}
		tail := a.minF
		if tail < 1 {
			tail = 1
		}
		wantLen := (t - first) + tail
		if len(rec.IDs) != wantLen || rec.IDs[0] != first || rec.StopEv < 0 {
			return fail("recovery: recording after the faults holds frames %v (stop event %d), want %d frames starting at %d (trigger frame %d)", rec.IDs, rec.StopEv, wantLen, first, t)
		}
		for i := 1; i < len(rec.IDs); i++ {
			if rec.IDs[i] != rec.IDs[i-1]+1 {
				return fail("recovery: recording after the faults is not gap-free: %v", rec.IDs)
			}
		}
		r.Class("recovery_checked")
	} else {
		r.Class("fault_in_suffix")
	}
	badWhileCont, overlapTest := false, false
	testOpenUntil := -1
	for i, e := range c.Rec.Ev {
		if e.K == vfEvBad && c.Rec.Cfg.Cont && i > 0 {
			badWhileCont = true
		}
		if e.K == vfEvTest {
			if i <= testOpenUntil {
				overlapTest = true
			}
			// a test recording lasts 21 accepted frames from the next frame
			n, j := 0, i+1
			for ; j < len(c.Rec.Ev) && n < 21; j++ {
				if c.Rec.Ev[j].K == vfEvFrame {
					n++
				}
			}
			testOpenUntil = j - 1
		}
	}
	if faultsReached > 0 {
		r.Class("fault_reached")
	}
	if badWhileCont {
		r.Class("bad_while_continuous")
	}
	if overlapTest {
		r.Class("overlapping_test_requests")
	}
	r.NT = faultsReached > 0 || badWhileCont || overlapTest
	return r
}

func TestVF_C12(t *testing.T) {
	kit.Drive(t, "C12", "TestVF_C12",
		"generated: event lists (<=200) over {valid frame with motion bit, bad frame, reset, test-recording request (also while one runs)} x continuous recorder on/off x a fault plan over every call type of the three sinks (check/start/write/stop ordinals, plus bursts of failing writes), followed by a fault-free suffix (flush, then one motion run). Oracle: bracket protocol on each sink (writes only inside start..stop, no start while open, a stop ends the bracket whatever it returns, a failed start opens nothing), no panic, no rejected frame reaches a sink, a recording is never offered frames past its limit even when writes fail, and the suffix's motion run is recorded exactly as a fault-free processor would. Non-trivial: an injected fault was actually reached, or a bad frame arrived with the continuous recorder on, or test requests overlapped.",
		vfGenC12, vfRunC12)
}

// ---------------------------------------------------------------------------------------------
// C17: continuous recorder tiles the stream; a test recording is 21 consecutive frames.

const vfEvNop = 4

type vfC17Case struct {
	Rec vfRecCase `json:"rec"`
}

func vfGenC17(t *rapid.T) vfC17Case {
	o := vfRecGenOpt{reset: true, window: true, maxEv: 260, cont: 2, variants: false, scale: true}
	c := vfRecCase{Cfg: vfGenRecCfg(t, o)}
	if c.Cfg.Max*c.Cfg.FPS <= 200 {
		c.Cfg.FPS = rapid.IntRange(1, 4).Draw(t, "fps17")
		if c.Cfg.Min > 3 {
			c.Cfg.Min = 3
		}
		if c.Cfg.Preview > 3 {
			c.Cfg.Preview = 3
		}
		c.Cfg.Max = rapid.IntRange(c.Cfg.Min, 5).Draw(t, "max17")
	} else if c.Cfg.Max*c.Cfg.FPS > 600 {
		// the shipped scale is kept, but continuous files of at most 601 frames keep the twins affordable
		c.Cfg.Max = 600 / c.Cfg.FPS
		if c.Cfg.Min > c.Cfg.Max {
			c.Cfg.Min = c.Cfg.Max
		}
	}
	c.Ev = vfGenEvents(t, c.Cfg, o)
	// pad so that several continuous files fit
	want := 2*(c.Cfg.Max*c.Cfg.FPS+1) + rapid.IntRange(0, 30).Draw(t, "pad")
	for len(c.Ev) < want {
		c.Ev = append(c.Ev, vfEv{K: vfEvFrame, M: rapid.Bool().Draw(t, "padm"), T: 12*3600 + 1800})
	}
	// non-overlapping test requests at arbitrary positions
	nreq := rapid.IntRange(0, 3).Draw(t, "nreq")
	pos := 0
	for i := 0; i < nreq && pos < len(c.Ev); i++ {
		at := pos + rapid.IntRange(0, 40).Draw(t, "reqat")
		if at > len(c.Ev) {
			break
		}
		c.Ev = append(c.Ev[:at], append([]vfEv{{K: vfEvTest, T: 12*3600 + 1800}}, c.Ev[at:]...)...)
		// skip past 21 accepted frames
		n, j := 0, at+1
		for ; j < len(c.Ev) && n < 21; j++ {
			if c.Ev[j].K == vfEvFrame {
				n++
			}
		}
		pos = j
	}
	if rapid.IntRange(0, 9).Draw(t, "framebase") == 0 {
		// a connection that has been up for a very long time: the 32-bit frame number is about to wrap
		c.FrameBase = uint32(1<<32 - 1 - rapid.IntRange(0, 60).Draw(t, "towrap"))
	}
	return vfC17Case{Rec: c}
}

func vfRunC17(c vfC17Case) *kit.Result {
	r := &kit.Result{}
	if msg := vfValidRecCase(c.Rec); msg != "" {
		r.Failf("malformed case: %s", msg)
		return r
	}
	for _, e := range c.Rec.Ev {
		if e.K == vfEvBad {
			r.Failf("malformed case: C17 quantifies over valid frames only")
			return r
		}
	}
	if !c.Rec.Cfg.Cont {
		r.Failf("malformed case: continuous recorder must be on")
		return r
	}
	run := vfDrive(c.Rec, nil)
	tr := run.tr
	fail := func(format string, a ...interface{}) *kit.Result {
		r.Failf(format, a...)
		r.Err += "\n  trace:" + vfTraceString(tr, 120)
		return r
	}
	if run.panicked != "" {
		return fail("%s", run.panicked)
	}
	size := c.Rec.Cfg.Max*c.Rec.Cfg.FPS + 1
	crecs, msg := vfBrackets(tr, 'c')
	if msg != "" {
		return fail("%s", msg)
	}
	total := len(run.accepted)
	next := 0
	for k, rec := range crecs {
		for _, id := range rec.IDs {
			if id != next {
				return fail("continuous file %d holds frame %d where frame %d is due (every frame exactly once, in order): %v", k, id, next, rec.IDs)
			}
			next++
		}
		last := k == len(crecs)-1
		if rec.StopEv >= 0 && len(rec.IDs) != size {
			return fail("continuous file %d was closed with %d frames, want max-secs*fps+1 = %d", k, len(rec.IDs), size)
		}
		if rec.StopEv < 0 && (!last || len(rec.IDs) >= size) {
			return fail("continuous file %d holds %d frames and was never closed (size %d)", k, len(rec.IDs), size)
		}
	}
	if next != total {
		return fail("continuous files hold %d frames, the stream had %d", next, total)
	}
	// test recordings
	trecs, msg := vfBrackets(tr, 't')
	if msg != "" {
		return fail("%s", msg)
	}
	var reqs []int
	for i, e := range c.Rec.Ev {
		if e.K == vfEvTest {
			reqs = append(reqs, i)
		}
	}
	// expected: one bracket per request that is followed by at least one frame
	wi := 0
	insideMotion := false
	mrecs, _ := vfBrackets(tr, 'm')
	for _, q := range reqs {
		firstEv := -1
		for j := q + 1; j < len(c.Rec.Ev); j++ {
			if c.Rec.Ev[j].K == vfEvFrame {
				firstEv = j
				break
			}
		}
		if firstEv < 0 {
			continue
		}
		if wi >= len(trecs) {
			return fail("test-recording request at event %d produced no recording", q)
		}
		rec := trecs[wi]
		wi++
		first := run.idOf[firstEv]
		if rec.StartEv != firstEv || len(rec.IDs) == 0 || rec.IDs[0] != first {
			return fail("test recording for the request at event %d started at event %d with frames %v, want it to start with the next processed frame %d (event %d)", q, rec.StartEv, rec.IDs, first, firstEv)
		}
		remaining := total - first
		want := 21
		if remaining < 21 {
			want = remaining
		}
		if len(rec.IDs) != want || (want == 21) != (rec.StopEv >= 0) {
			return fail("test recording for the request at event %d holds %d frames (closed=%v), want exactly 21 consecutive frames (stream has %d left)", q, len(rec.IDs), rec.StopEv >= 0, remaining)
		}
		for i, id := range rec.IDs {
			if id != first+i {
				return fail("test recording frames %v are not consecutive", rec.IDs)
			}
		}
		for _, m := range mrecs {
			if m.StartEv <= firstEv && (m.StopEv < 0 || m.StopEv >= firstEv) {
				insideMotion = true
			}
		}
	}
	if wi != len(trecs) {
		return fail("%d test recordings were made for %d requests", len(trecs), len(reqs))
	}
	// a test recording must not disturb the motion recordings, and motion/window must not influence the
	// continuous files: twin runs
	twin := c.Rec
	twin.Ev = append([]vfEv{}, c.Rec.Ev...)
	for i := range twin.Ev {
		if twin.Ev[i].K == vfEvTest {
			twin.Ev[i].K = vfEvNop
		}
	}
	run2 := vfDrive(twin, nil)
	if run2.panicked != "" {
		return fail("request-free twin: %s", run2.panicked)
	}
	if a, b := vfSinkString(tr, 'm'), vfSinkString(run2.tr, 'm'); a != b {
		return fail("motion recordings differ from the run without test-recording requests:\n   with: %s\nwithout: %s", a, b)
	}
	still := c.Rec
	still.Ev = append([]vfEv{}, c.Rec.Ev...)
	still.Cfg.WinStart, still.Cfg.WinEnd = 0, 0
	for i := range still.Ev {
		still.Ev[i].M = false
	}
	run3 := vfDrive(still, nil)
	if a, b := vfSinkString(tr, 'c'), vfSinkString(run3.tr, 'c'); a != b {
		return fail("continuous files depend on motion / recording window:\n actual: %s\n motion-free, window-free twin: %s", a, b)
	}
	if len(crecs) >= 3 {
		r.Class("cont>=3files")
	}
	if len(trecs) > 0 {
		r.Class("has_test_recording")
	}
	if insideMotion {
		r.Class("test_inside_motion_recording")
	}
	r.NT = total >= 2*size && insideMotion
	return r
}

func vfSinkString(tr *vfTrace, s byte) string {
	out := ""
	for _, c := range tr.calls {
		if c.S == s {
			out += " " + c.String()
		}
	}
	return out
}

func TestVF_C17(t *testing.T) {
	kit.Drive(t, "C17", "TestVF_C17",
		"generated: streams of valid frames (fps 1-4, max-secs 0-5; one case in 16 at the shipped scale, 9/30 fps and continuous files of 271-601 frames) with arbitrary motion, resets, window open/closed and up to 3 non-overlapping test-recording requests at arbitrary frames, continuous recorder on. Oracle: continuous files are back-to-back blocks of exactly max-secs*fps+1 frames covering every frame once in order (last may be open), identical to a motion-free/window-free twin; each request yields one test recording of exactly 21 consecutive frames starting with the next processed frame; motion-sink calls are identical to the request-free twin. Non-trivial: stream of at least 2 continuous files with a test request served inside a motion recording. Distinct by hash of the case.",
		vfGenC17, vfRunC17)
}

var _ = fmt.Sprint

// ---------------------------------------------------------------------------------------------
// C12, every single-fault placement: for a generated fault-free event list, each individual sink call
// (every start / write / stop / check of the three sinks that the run reaches) is made to fail in turn.

func vfGenC12Single(t *rapid.T) vfC12Case {
	o := vfRecGenOpt{bad: true, reset: true, test: true, maxEv: 120, cont: 1, variants: false}
	c := vfRecCase{Cfg: vfGenRecCfg(t, o)}
	c.Cfg.Cont = rapid.Bool().Draw(t, "cont")
	c.Ev = vfGenEvents(t, c.Cfg, o)
	return vfC12Finish(c)
}

func vfRunC12Single(c vfC12Case) *kit.Result {
	r := &kit.Result{}
	if msg := vfValidRecCase(c.Rec); msg != "" {
		r.Failf("malformed case: %s", msg)
		return r
	}
	// replay of one placement: the fault plan is already in the case
	if f := c.Rec.Faults; len(f.Check)+len(f.MStart)+len(f.MWrite)+len(f.MStop)+len(f.CStart)+len(f.CWrite)+len(f.CStop)+len(f.TStart)+len(f.TWrite)+len(f.TStop) > 0 {
		return vfRunC12(c)
	}
	base := vfDrive(c.Rec, nil)
	if base.panicked != "" {
		r.Failf("%s", base.panicked)
		return r
	}
	counts := map[[2]byte]int{}
	for _, cl := range base.tr.calls {
		if cl.Ev < c.Suffix { // placements before the recovery suffix
			counts[[2]byte{cl.S, cl.C}]++
		}
	}
	placements, reached := 0, 0
	set := func(f *vfFaults, k [2]byte, n int) {
		l := []int{n}
		switch k {
		case [2]byte{'m', 'K'}:
			f.Check = l
		case [2]byte{'m', 'S'}:
			f.MStart = l
		case [2]byte{'m', 'W'}:
			f.MWrite = l
		case [2]byte{'m', 'P'}:
			f.MStop = l
		case [2]byte{'c', 'S'}:
			f.CStart = l
		case [2]byte{'c', 'W'}:
			f.CWrite = l
		case [2]byte{'c', 'P'}:
			f.CStop = l
		case [2]byte{'t', 'S'}:
			f.TStart = l
		case [2]byte{'t', 'W'}:
			f.TWrite = l
		case [2]byte{'t', 'P'}:
			f.TStop = l
		}
	}
	for _, k := range [][2]byte{{'m', 'K'}, {'m', 'S'}, {'m', 'W'}, {'m', 'P'}, {'c', 'S'}, {'c', 'W'}, {'c', 'P'}, {'t', 'S'}, {'t', 'W'}, {'t', 'P'}} {
		for n := 0; n < counts[k]; n++ {
			cc := c
			cc.Rec.Faults = vfFaults{}
			set(&cc.Rec.Faults, k, n)
			pr := vfRunC12(cc)
			placements++
			for _, cl := range pr.Classes {
				if cl == "fault_reached" {
					reached++
				}
			}
			if pr.Err != "" {
				r.Err = fmt.Sprintf("single fault on call %d of sink %c/%c: %s", n, k[0], k[1], pr.Err)
				r.ReplayCase = cc
				return r
			}
		}
	}
	r.ExtraEvals = placements
	r.ExtraNT = reached
	r.NT = placements > 0
	r.Count("single_fault_placements", placements)
	return r
}

func TestVF_C12_SingleFault(t *testing.T) {
	kit.Drive(t, "C12", "TestVF_C12_SingleFault",
		"generated fault-free event lists (<=120 events, as TestVF_C12); then EVERY individual sink call the run makes before the recovery suffix (each check / start / write / stop of the motion, continuous and test sink) is made to fail in turn - a complete enumeration of single-fault placements per event list - with the oracles of TestVF_C12. Evaluations count the placements; non-trivial ones are those where the injected fault was reached.",
		vfGenC12Single, vfRunC12Single)
}


// C17, continuous files longer than a 16-bit counter can number (max-secs*fps + 1 > 65536).
type vfHugeCase struct {
	FPS, Max int
	N        int   `json:"frames"`
	Motion   []int `json:"motion_at"`
}

func vfGenHuge(rt *rapid.T) vfHugeCase {
	hc := vfHugeCase{FPS: rapid.SampledFrom([]int{9, 30, 60}).Draw(rt, "fps")}
	hc.Max = 65536/hc.FPS + rapid.IntRange(1, 9).Draw(rt, "maxoff")
	per := hc.Max*hc.FPS + 1
	hc.N = 2*per + rapid.IntRange(5, 400).Draw(rt, "extra")
	for i := rapid.IntRange(0, 4).Draw(rt, "nmotion"); i > 0; i-- {
		hc.Motion = append(hc.Motion, rapid.IntRange(1, hc.N-1).Draw(rt, "motionat"))
	}
	return hc
}

func vfRunHuge(hc vfHugeCase) *kit.Result {
	r := &kit.Result{NT: true}
	per := hc.Max*hc.FPS + 1
	if hc.FPS < 1 || hc.FPS > 60 || hc.Max < 1 || per > 70000 || hc.N < 1 || hc.N > 3*per {
		r.Failf("malformed case")
		return r
	}
	c := vfRecCase{Cfg: vfRecCfg{FPS: hc.FPS, Preview: 1, Min: 1, Max: hc.Max, Trigger: 1, W: 3, H: 3, Gap: 1, Cont: true}}
	c.Ev = make([]vfEv, hc.N)
	for i := range c.Ev {
		c.Ev[i] = vfEv{K: vfEvFrame, T: 12*3600 + 1800}
	}
	for _, m := range hc.Motion {
		if m >= 0 && m < hc.N {
			c.Ev[m].M = true
		}
	}
	run := vfDrive(c, nil)
	if run.panicked != "" {
		r.Failf("%s", run.panicked)
		return r
	}
	recs, msg := vfBrackets(run.tr, 'c')
	if msg != "" {
		r.Failf("%s", msg)
		return r
	}
	next := 0
	for k, rec := range recs {
		for _, id := range rec.IDs {
			if id != next {
				r.Failf("continuous file %d holds frame %d where frame %d is due", k, id, next)
				return r
			}
			next++
		}
		if rec.StopEv >= 0 && len(rec.IDs) != per {
			r.Failf("continuous file %d was closed with %d frames, want max-secs*fps+1 = %d (fps %d, max-secs %d)", k, len(rec.IDs), per, hc.FPS, hc.Max)
			return r
		}
	}
	if want := (hc.N + per - 1) / per; len(recs) != want || next != hc.N {
		r.Failf("%d frames in %d continuous files, want %d frames in %d files", next, len(recs), hc.N, want)
	}
	return r
}

func TestVF_C17_HugeFiles(t *testing.T) {
	kit.Drive(t, "C17", "TestVF_C17_HugeFiles", "generated (fps, max-secs) with max-secs*fps+1 between 65537 and 66100 frames per continuous file, streams of two such files and a bit with motion at a few places; every closed continuous file must hold exactly max-secs*fps+1 consecutive frames, the files tiling the stream. Every case counts as non-trivial.",
		vfGenHuge, vfRunHuge)
}

//go:build verif

package motion

import (
	"fmt"
	"testing"

	kit "verifkit"
)

// C16 at the processor level, without concurrency: a request made right after a frame has been processed
// completely must be served that very frame (no newer one exists), whatever the storage did meanwhile - failed
// checks, starts, writes and stops included. After a rejected frame the request is served the last accepted
// frame or nothing, never the rejected one. The concurrent half of C16 is decided end to end (recmain).

func vfRunC16Proc(c vfC12Case) *kit.Result {
	r := &kit.Result{}
	if msg := vfValidRecCase(c.Rec); msg != "" {
		r.Failf("malformed case: %s", msg)
		return r
	}
	if c.Rec.ProcessFrame {
		// ProcessFrame does not number frames; the snapshot path is not used with it
		return r
	}
	msg := ""
	last, asked, afterBad := -1, 0, 0
	run := vfDrive(c.Rec, func(run *vfRecRun, i int) {
		if msg != "" || run.panicked != "" {
			return
		}
		switch c.Rec.Ev[i].K {
		case vfEvFrame:
			id := run.idOf[i]
			last = id
			n, f := run.mp.GetRecentFrame()
			asked++
			if f == nil {
				if n == 0 && c.Rec.FrameBase != 0 {
					return // the 32-bit frame number has just wrapped to 0, which means 'nothing received yet'
				}
				msg = fmt.Sprintf("event %d: frame %d has been processed completely, a request made now is served nothing", i, id)
			} else if f.Status.FrameCount != id {
				msg = fmt.Sprintf("event %d: frame %d has been processed completely, a request made now is served frame %d", i, id, f.Status.FrameCount)
			}
		case vfEvBad:
			_, f := run.mp.GetRecentFrame()
			afterBad++
			if f != nil && f.Status.FrameCount != last {
				msg = fmt.Sprintf("event %d: after a rejected frame a request is served frame %d; the last accepted frame is %d", i, f.Status.FrameCount, last)
			}
		}
	})
	if run.panicked != "" {
		r.Failf("%s", run.panicked)
		return r
	}
	if msg != "" {
		r.Failf("%s", msg)
		r.Err += "\n  trace:" + vfTraceString(run.tr, 120)
		return r
	}
	faults := 0
	for _, cl := range run.tr.calls {
		if cl.Err {
			faults++
		}
	}
	if faults > 0 {
		r.Class("fault_reached")
	}
	if afterBad > 0 {
		r.Class("request_after_rejected_frame")
	}
	r.NT = asked > 0 && (faults > 0 || afterBad > 0)
	return r
}

func TestVF_C16_Proc(t *testing.T) {
	kit.Drive(t, "C16", "TestVF_C16_Proc",
		"generated: the event lists and storage fault plans of C12 (valid / rejected frames, resets, test requests; failing checks, starts, writes and stops of all three sinks), single-threaded. Oracle: GetRecentFrame called directly after every accepted frame returns that frame; after a rejected frame it returns the last accepted frame or nothing. Non-trivial: a storage fault was reached or a request followed a rejected frame.",
		vfGenC12, vfRunC16Proc)
}

//go:build verif

package motion

import (
	"fmt"
	"testing"

	"pgregory.net/rapid"
	kit "verifkit"
)

// ---------------------------------------------------------------------------------------------
// Trace analysis shared by C01..C04. Everything is derived from what the sinks and the listener
// observed, the event list and the configuration - not from the processor's fields.

type vfAnalysis struct {
	c       vfRecCase
	run     *vfRecRun
	recs    []vfRec
	ring    int
	minF    int
	maxF    int
	trig    int
	protoEr string
}

func vfAnalyse(c vfRecCase, run *vfRecRun) *vfAnalysis {
	a := &vfAnalysis{c: c, run: run}
	a.ring = c.Cfg.Preview*c.Cfg.FPS + c.Cfg.Trigger
	a.minF = c.Cfg.Min * c.Cfg.FPS
	a.maxF = c.Cfg.Max * c.Cfg.FPS
	a.trig = c.Cfg.Trigger
	if a.trig < 1 {
		a.trig = 1
	}
	a.recs, a.protoEr = vfBrackets(run.tr, 'm')
	return a
}

// motion bit of accepted frame id, as reported through the listener
func (a *vfAnalysis) motion(id int) bool { return a.run.tr.motion[a.run.accepted[id]] }

// trigger frame id of a recording: the frame being processed when it was started
func (a *vfAnalysis) trigID(r vfRec) (int, bool) {
	id, ok := a.run.idOf[r.StartEv]
	return id, ok
}

func (a *vfAnalysis) endedEarly(r vfRec) bool {
	if r.StopEv < 0 {
		return true
	}
	k := a.c.Ev[r.StopEv].K
	return k == vfEvBad || k == vfEvReset
}

// C01: each recording is a run of consecutive accepted frames; recordings are disjoint and ordered;
// a re-trigger within pre-trigger reach of the previous end starts exactly at the following frame.
func (a *vfAnalysis) checkC01(r *kit.Result) {
	if a.protoEr != "" {
		r.Failf("%s", a.protoEr)
		return
	}
	prevLast := -1
	for k, rec := range a.recs {
		if len(rec.IDs) == 0 {
			// a recording with no frame at all: the trigger frame is always written
			if rec.StopEv >= 0 && !a.endedEarly(rec) {
				r.Failf("recording %d (started at event %d) holds no frame", k, rec.StartEv)
				return
			}
			continue
		}
		for i := 1; i < len(rec.IDs); i++ {
			if rec.IDs[i] != rec.IDs[i-1]+1 {
				r.Failf("recording %d: frame %d follows frame %d (frames must be consecutive accepted frames, in order): %v", k, rec.IDs[i], rec.IDs[i-1], rec.IDs)
				return
			}
		}
		if rec.IDs[0] <= prevLast {
			r.Failf("recording %d starts at frame %d but the previous recording already holds frames up to %d (frame written twice)", k, rec.IDs[0], prevLast)
			return
		}
		if t, ok := a.trigID(rec); ok && prevLast >= 0 {
			if t-(a.ring-1) <= prevLast+1 && rec.IDs[0] != prevLast+1 {
				r.Failf("recording %d triggered at frame %d with the previous recording's end (%d) within pre-trigger reach (%d frames) starts at %d, want %d (back-to-back recordings must tile the stream)", k, t, prevLast, a.ring-1, rec.IDs[0], prevLast+1)
				return
			}
		}
		prevLast = rec.IDs[len(rec.IDs)-1]
	}
}

// C02: a recording triggered at t starts with the ring-1 frames preceding t (oldest first) then t,
// cut only by start-up and by the previous recording's end.
func (a *vfAnalysis) checkC02(r *kit.Result) {
	if a.protoEr != "" {
		r.Failf("%s", a.protoEr)
		return
	}
	prevLast := -1
	for k, rec := range a.recs {
		t, ok := a.trigID(rec)
		if !ok {
			r.Failf("recording %d started while processing event %d which is not a valid frame", k, rec.StartEv)
			return
		}
		first := t - (a.ring - 1)
		if first < prevLast+1 {
			first = prevLast + 1
		}
		if first < 0 {
			first = 0
		}
		// frames written while the trigger frame was being processed: the pre-trigger frames and t itself
		var atStart []int
		for i, ev := range rec.WEv {
			if ev == rec.StartEv {
				atStart = append(atStart, rec.IDs[i])
			}
		}
		want := []int{}
		for id := first; id <= t; id++ {
			want = append(want, id)
		}
		if fmt.Sprint(atStart) != fmt.Sprint(want) {
			r.Failf("recording %d triggered at frame %d (pre-trigger capacity %d, previous recording ended at %d): frames written at the trigger %v, want %v", k, t, a.ring-1, prevLast, atStart, want)
			return
		}
		if len(rec.IDs) > 0 {
			prevLast = rec.IDs[len(rec.IDs)-1]
		}
	}
}

// C03: counting from the trigger frame, a recording ends at the least offset j >= 1 with
// j >= min(lastMotion(j)-1+minF, maxF); earlier only because of a bad frame / reset / end of stream.
func (a *vfAnalysis) checkC03(r *kit.Result) {
	if a.protoEr != "" {
		r.Failf("%s", a.protoEr)
		return
	}
	for k, rec := range a.recs {
		t, ok := a.trigID(rec)
		if !ok {
			continue
		}
		// frames from the trigger on
		var ids []int
		for _, id := range rec.IDs {
			if id >= t {
				ids = append(ids, id)
			}
		}
		L := len(ids)
		early := a.endedEarly(rec)
		lm := 0
		terminal := -1
		for j := 1; j <= L; j++ {
			if a.motion(ids[j-1]) {
				lm = j
			}
			if j == 1 {
				lm = 1 // the trigger frame has motion by definition
			}
			lim := lm - 1 + a.minF
			if a.maxF < lim {
				lim = a.maxF
			}
			if j >= lim {
				terminal = j
				break
			}
		}
		if L == 0 {
			if !early {
				r.Failf("recording %d: the trigger frame %d was not written", k, t)
				return
			}
			continue
		}
		if terminal >= 0 && terminal < L {
			r.Failf("recording %d (trigger frame %d): %d frames from the trigger, but the limit was reached at offset %d (min %d frames past the last motion, cap %d)", k, t, L, terminal, a.minF, a.maxF)
			return
		}
		if terminal < 0 && !early {
			r.Failf("recording %d (trigger frame %d) was stopped after %d frames from the trigger before any limit was reached (min %d frames past the last motion, cap %d)", k, t, L, a.minF, a.maxF)
			return
		}
		if terminal == L && rec.StopEv >= 0 && !early {
			// stopped exactly when the limit was reached: the stop must come with that very frame
			if rec.StopEv != rec.WEv[len(rec.WEv)-1] {
				r.Failf("recording %d reached its limit at frame %d but was only stopped at event %d", k, ids[L-1], rec.StopEv)
				return
			}
		}
		if terminal == L && rec.StopEv < 0 {
			r.Failf("recording %d reached its limit at offset %d but was never stopped", k, L)
			return
		}
	}
}

// C04: a start is attempted at frame n iff idle, motion(n), run >= max(trigger-frames,1), window open;
// the storage is asked (check, then start) exactly then; a recording begins iff both succeed.
func (a *vfAnalysis) checkC04(r *kit.Result) {
	if a.protoEr != "" {
		r.Failf("%s", a.protoEr)
		return
	}
	// index motion-sink calls per event
	type evCalls struct{ k, s, kErr, sErr int }
	per := map[int]*evCalls{}
	for _, c := range a.run.tr.calls {
		if c.S != 'm' {
			continue
		}
		p := per[c.Ev]
		if p == nil {
			p = &evCalls{}
			per[c.Ev] = p
		}
		switch c.C {
		case 'K':
			p.k++
			if c.Err {
				p.kErr++
			}
		case 'S':
			p.s++
			if c.Err {
				p.sErr++
			}
		}
	}
	recAt := map[int]int{} // start event -> rec index
	stopAt := map[int]bool{}
	for i, rec := range a.recs {
		recAt[rec.StartEv] = i
		if rec.StopEv >= 0 {
			stopAt[rec.StopEv] = true
		}
	}
	recording := false
	runLen := 0
	for i, e := range a.c.Ev {
		p := per[i]
		if p == nil {
			p = &evCalls{}
		}
		if e.K != vfEvFrame {
			if p.k+p.s > 0 {
				r.Failf("event %d is not a valid frame but storage was asked to check/start (%d/%d)", i, p.k, p.s)
				return
			}
			if stopAt[i] {
				recording = false
				runLen = 0
			}
			continue
		}
		m := a.run.tr.motion[i]
		if m {
			runLen++
		} else {
			runLen = 0
		}
		wantAttempt := !recording && m && runLen >= a.trig && vfWindowActive(a.c.Cfg, e)
		if !m && p.k+p.s > 0 {
			r.Failf("frame at event %d has no detected motion but a recording start was attempted", i)
			return
		}
		if wantAttempt && p.k != 1 {
			why := ""
			if runLen > a.trig {
				why = " (a refused start must be retried on the next motion frame of the same run)"
			}
			r.Failf("frame at event %d: idle, motion run of %d >= trigger-frames %d, window open: expected one storage check, saw %d%s", i, runLen, a.c.Cfg.Trigger, p.k, why)
			return
		}
		if !wantAttempt && p.k+p.s > 0 {
			r.Failf("frame at event %d: start attempted (check %d, start %d) although recording=%v motion=%v run=%d/%d windowOpen=%v", i, p.k, p.s, recording, m, runLen, a.c.Cfg.Trigger, vfWindowActive(a.c.Cfg, e))
			return
		}
		if wantAttempt {
			wantS := 0
			if p.kErr == 0 {
				wantS = 1
			}
			if p.s != wantS {
				r.Failf("frame at event %d: storage check failed=%v but StartRecording was called %d times", i, p.kErr > 0, p.s)
				return
			}
			_, started := recAt[i]
			wantStarted := p.kErr == 0 && p.sErr == 0
			if started != wantStarted {
				r.Failf("frame at event %d: recording started=%v, want %v (check ok=%v, start ok=%v)", i, started, wantStarted, p.kErr == 0, p.sErr == 0)
				return
			}
			if started {
				recording = true
			}
		}
		if stopAt[i] {
			recording = false
			runLen = 0
		}
	}
}

// classes used to read the generator distribution
func (a *vfAnalysis) classify(r *kit.Result) (nt01, nt02, nt03, nt04 bool) {
	c := a.c
	if c.Cfg.Trigger == 0 {
		r.Class("trigger0")
	}
	if c.Cfg.Min == 0 {
		r.Class("min0")
	}
	if len(a.recs) >= 2 {
		r.Class("recs>=2")
	}
	refusedWin, refusedChk, refusedStart := 0, 0, 0
	for _, cl := range a.run.tr.calls {
		if cl.S == 'm' && cl.C == 'K' && cl.Err {
			refusedChk++
		}
		if cl.S == 'm' && cl.C == 'S' && cl.Err {
			refusedStart++
		}
	}
	prevLast := -1
	wrappedFull, cutPrev, cutStart := false, false, false
	capHit, extended, motionLast, earlyThenAnother := false, false, false, false
	inReach := false
	for k, rec := range a.recs {
		t, ok := a.trigID(rec)
		if !ok || len(rec.IDs) == 0 {
			continue
		}
		want := t - (a.ring - 1)
		if want <= prevLast+1 && prevLast >= 0 {
			cutPrev = true
			inReach = true
		} else if want < 0 {
			cutStart = true
		} else if t >= a.ring {
			wrappedFull = true
		}
		L := 0
		lastMotionOff := 1
		for _, id := range rec.IDs {
			if id >= t {
				L++
				if a.motion(id) {
					lastMotionOff = L
				}
			}
		}
		if a.maxF > 0 && L == a.maxF && !a.endedEarly(rec) {
			capHit = true
		}
		if lastMotionOff > 1 {
			extended = true
		}
		if lastMotionOff == L && L > 1 {
			motionLast = true
		}
		if a.endedEarly(rec) && rec.StopEv >= 0 && k+1 < len(a.recs) {
			earlyThenAnother = true
		}
		prevLast = rec.IDs[len(rec.IDs)-1]
	}
	// refused by window: motion frames with run>=trig, idle, window closed
	recording := false
	runLen := 0
	stopAt := map[int]bool{}
	startAt := map[int]bool{}
	for _, rec := range a.recs {
		startAt[rec.StartEv] = true
		if rec.StopEv >= 0 {
			stopAt[rec.StopEv] = true
		}
	}
	gateEdgeInRun := false
	prevOpen := true
	for i, e := range c.Ev {
		if e.K == vfEvFrame {
			if a.run.tr.motion[i] {
				runLen++
			} else {
				runLen = 0
			}
			open := vfWindowActive(c.Cfg, e)
			if !recording && runLen >= a.trig && !open {
				refusedWin++
			}
			if runLen >= 2 && open != prevOpen {
				gateEdgeInRun = true
			}
			prevOpen = open
			if startAt[i] {
				recording = true
			}
		}
		if stopAt[i] {
			recording = false
			runLen = 0
		}
	}
	for name, n := range map[string]int{"refused_window": refusedWin, "refused_check": refusedChk, "refused_start": refusedStart} {
		if n > 0 {
			r.Class(name)
		}
	}
	if inReach {
		r.Class("retrigger_in_reach")
	}
	if capHit {
		r.Class("cap_hit")
	}
	if extended {
		r.Class("extended")
	}
	if wrappedFull {
		r.Class("pretrigger_full_wrapped")
	}
	if cutPrev {
		r.Class("pretrigger_cut_by_prev")
	}
	if cutStart {
		r.Class("pretrigger_cut_by_startup")
	}
	nt01 = (len(a.recs) >= 2 && inReach) || earlyThenAnother || (capHit && len(a.recs) >= 2)
	nt02 = wrappedFull || cutPrev || cutStart
	nt03 = extended || capHit || motionLast
	refused := refusedWin + refusedChk + refusedStart
	nt04 = refused > 0 && len(a.recs) > 0 && (gateEdgeInRun || refusedChk+refusedStart > 0)
	return
}

func vfGenRec(o vfRecGenOpt) func(t *rapid.T) vfRecCase {
	return func(t *rapid.T) vfRecCase {
		c := vfRecCase{Cfg: vfGenRecCfg(t, o)}
		c.Ev = vfGenEvents(t, c.Cfg, o)
		if o.faultsCheckStart {
			c.Faults.Check = vfGenOrdinals(t, "checkfail", 6)
			c.Faults.MStart = vfGenOrdinals(t, "startfail", 5)
		}
		if !o.bad {
			c.ProcessFrame = rapid.IntRange(0, 3).Draw(t, "pf") == 0
		}
		if o.winTraj && rapid.IntRange(0, 7).Draw(t, "longrefused") == 0 {
			// one long unbroken motion run during which every start is refused (window closed), the refusal ending
			// at a run length around a power of two: the retry must come with the very next motion frame
			if c.Cfg.WinStart == c.Cfg.WinEnd {
				c.Cfg.WinStart, c.Cfg.WinEnd = 600, 720
			}
			closedT, openT := int64(c.Cfg.WinEnd)*60+3, int64(c.Cfg.WinStart)*60
			base := rapid.SampledFrom([]int{128, 256, 256, 256, 512, 1024, 65536}).Draw(t, "pow")
			if base == 65536 && rapid.IntRange(0, 3).Draw(t, "really") > 0 {
				base = 256
			}
			L := base + rapid.IntRange(-3, 5).Draw(t, "off")
			c.Ev = c.Ev[:rapid.IntRange(0, len(c.Ev)).Draw(t, "keep")]
			if len(c.Ev) > 40 {
				c.Ev = c.Ev[:40]
			}
			for i := 0; i < 3; i++ {
				c.Ev = append(c.Ev, vfEv{K: vfEvFrame, T: closedT})
			}
			for i := 0; i < L; i++ {
				c.Ev = append(c.Ev, vfEv{K: vfEvFrame, M: true, T: closedT})
			}
			for i := rapid.IntRange(1, 6).Draw(t, "after"); i > 0; i-- {
				c.Ev = append(c.Ev, vfEv{K: vfEvFrame, M: true, T: openT})
			}
			c.Ev = append(c.Ev, vfEv{K: vfEvFrame, T: openT})
			c.Faults.Check, c.Faults.MStart = nil, nil
			return c
		}
		if o.winTraj && c.Cfg.WinStart != c.Cfg.WinEnd && rapid.Bool().Draw(t, "traj") {
			// wall-clock trajectory relative to the absolute window times: every frame gets a time of day
			// on, 1 ns before or 1 ns after a boundary (or midnight), or anywhere, on any of three days
			day := int64(24 * 3600)
			for i := range c.Ev {
				var tod, ns int64
				b := []int64{int64(c.Cfg.WinStart) * 60, int64(c.Cfg.WinEnd) * 60, 0}[rapid.IntRange(0, 2).Draw(t, "bnd")]
				switch rapid.IntRange(0, 4).Draw(t, "where") {
				case 0:
					tod, ns = b, 0
				case 1:
					tod, ns = (b+day-1)%day, 999999999
				case 2:
					tod, ns = b, 1
				case 3:
					tod, ns = rapid.Int64Range(0, day-1).Draw(t, "tod"), rapid.Int64Range(0, 999999999).Draw(t, "ns")
				case 4:
					tod, ns = (b+day+rapid.Int64Range(-90, 90).Draw(t, "near"))%day, 0
				}
				c.Ev[i].T = tod + day*rapid.Int64Range(0, 2).Draw(t, "day")
				c.Ev[i].N = ns
			}
		}
		return c
	}
}

func vfRunRecProp(which int) func(c vfRecCase) *kit.Result {
	return func(c vfRecCase) *kit.Result {
		r := &kit.Result{}
		if msg := vfValidRecCase(c); msg != "" {
			r.Failf("malformed case: %s", msg)
			return r
		}
		run := vfDrive(c, nil)
		if run.panicked != "" {
			r.Failf("%s", run.panicked)
			return r
		}
		a := vfAnalyse(c, run)
		// the simple detector configuration must report exactly the programmed bit-string
		// (sanity of the harness; a mismatch is reported as such, it is C07's subject)
		switch which {
		case 1:
			a.checkC01(r)
		case 2:
			a.checkC02(r)
		case 3:
			a.checkC03(r)
		case 4:
			a.checkC04(r)
			if r.Err == "" {
				// detection itself must not depend on the gates: with the plain detector configuration (gap 1,
				// one comparison) and no FFC in the stream, a frame is reported as motion exactly when its
				// programmed pixel toggled against the previous accepted frame and it is not the first frame
				// since start-up or a reset - whether or not the window is open or storage is available
				plain := c.Cfg.Gap == 1 && !c.Cfg.TwoDiff
				for _, e := range c.Ev {
					if e.F {
						plain = false
					}
				}
				first := true
				for i, e := range c.Ev {
					if !plain {
						break
					}
					switch e.K {
					case vfEvReset:
						first = true
					case vfEvFrame:
						want := e.M && !first
						if run.tr.motion[i] != want {
							r.Failf("frame at event %d: detection reported motion=%v, the programmed pixel says %v (window open=%v): detection must not depend on the recording gates", i, run.tr.motion[i], want, vfWindowActive(c.Cfg, e))
						}
						first = false
					}
					if r.Err != "" {
						break
					}
				}
			}
		}
		if r.Err != "" {
			r.Err += "\n  trace:" + vfTraceString(run.tr, 80)
		}
		n1, n2, n3, n4 := a.classify(r)
		r.NT = []bool{false, n1, n2, n3, n4}[which]
		return r
	}
}

func vfValidRecCase(c vfRecCase) string {
	g := c.Cfg
	if g.FPS < 1 || g.Preview < 0 || g.Trigger < 0 || g.Preview*g.FPS+g.Trigger < 1 || g.Min < 0 || g.Max < g.Min {
		return "configuration outside the property's domain"
	}
	if g.Edge < 0 || g.W-2*g.Edge < 1 || g.H-2*g.Edge < 1 || g.W > 64 || g.H > 64 {
		return "bad geometry"
	}
	if len(c.Ev) > 200000 {
		return "too many events"
	}
	return ""
}

const vfRecDomain = "generated: fps 1-9, preview 0-3 s, trigger-frames 0-4 (preview*fps+trigger>=1), min 0-3 s <= max <= 5 s (one case in 8 with previews to 15 s and limits to 40 s, one in 16 at the shipped scale: 9/30 fps, max-secs 30-600, streams long enough for two recordings that reach the cap), 2x2..6x5 frames, edge 0-1; event lists of up to 300 events built from segments tuned to the configuration (still runs around the ring size, motion runs of trigger-1/trigger/trigger+1, sustained motion over several max-length recordings, blips, motion placed at the limit, random and alternating bits) with bad frames, resets, flat-field-correction periods (telemetry) of 1-12 frames, window open/closed and failing disk checks / starts interleaved; the real detector is driven by a toggling interior pixel and the motion bits used by the oracle are the ones the processor reported. "

var (
	vfOptC01 = vfRecGenOpt{bad: true, reset: true, faultsCheckStart: true, window: true, maxEv: 300, variants: true, scale: true, ffc: true}
	vfOptC04 = vfRecGenOpt{bad: true, reset: true, faultsCheckStart: true, window: true, winTraj: true, maxEv: 200, variants: true, scale: true, ffc: true}
)

func TestVF_C01(t *testing.T) {
	kit.Drive(t, "C01", "TestVF_C01", vfRecDomain+"Oracle: every motion recording is a run of consecutive accepted frames in order, recordings are disjoint and ordered, and a re-trigger with the previous end within pre-trigger reach starts at the very next frame. Non-trivial: >=2 recordings with the second within pre-trigger reach of the first, or a recording ended by a bad frame/reset followed by another, or a max-length recording followed by another.",
		vfGenRec(vfOptC01), vfRunRecProp(1))
}

func TestVF_C02(t *testing.T) {
	kit.Drive(t, "C02", "TestVF_C02", vfRecDomain+"Oracle: the frames written at the trigger are exactly max(t-(preview*fps+trigger-1), previous end+1, first accepted frame)..t, oldest first. Non-trivial: a trigger whose pre-trigger window is full after the ring wrapped, or cut by the previous recording's end, or cut by start-up.",
		vfGenRec(vfOptC01), vfRunRecProp(2))
}

func TestVF_C03(t *testing.T) {
	kit.Drive(t, "C03", "TestVF_C03", vfRecDomain+"Oracle: counting from the trigger frame a recording ends at the least offset j>=1 with j >= min(lastMotionOffset(j)-1+min*fps, max*fps), earlier only through a bad frame, reset or the end of the stream, and the stop comes with that very frame. Non-trivial: a recording extended by later motion, ended by the cap, or with motion on its final frame.",
		vfGenRec(vfOptC01), vfRunRecProp(3))
}

func TestVF_C04(t *testing.T) {
	kit.Drive(t, "C04", "TestVF_C04", vfRecDomain+"Oracle: the storage check is made at a frame iff no recording is active, the frame has motion, the motion run since the last still frame / recording end is >= max(trigger-frames,1) and the window (closed form start<=tod<end mod 24h) is open; StartRecording follows iff the check passed; a recording starts iff both succeeded; never on a motionless frame. Non-trivial: at least one refused start (window/check/start) and one successful start, with a window edge inside a motion run or a storage refusal. One case in 8 is a single motion run of 125-1029 (rarely 65533-65541) frames with every start refused by the window, the window opening at a run length around a power of two.",
		vfGenRec(vfOptC04), vfRunRecProp(4))
}

// ---------------------------------------------------------------------------------------------
// The complete reference model (kit.RunModel) against the real processor: every motion recording,
// frame for frame. Part of C01's check; also validates the model used by the end-to-end checks.

func vfModelEvents(c vfRecCase, run *vfRecRun) []kit.MEvent {
	evs := make([]kit.MEvent, len(c.Ev))
	for i, e := range c.Ev {
		k := kit.MEvFrame
		switch e.K {
		case vfEvBad:
			k = kit.MEvBad
		case vfEvReset:
			k = kit.MEvReset
		case vfEvTest:
			k = kit.MEvTest
		case vfEvNop:
			k = -1
		}
		evs[i] = kit.MEvent{Kind: k, Motion: run.tr.motion[i], WinOpen: vfWindowActive(c.Cfg, e)}
	}
	return evs
}

func vfModelConfig(c vfRecCase) kit.MConfig {
	g := c.Cfg
	checks, starts := 0, 0
	failSet := func(l []int) map[int]bool {
		m := map[int]bool{}
		for _, i := range l {
			m[i] = true
		}
		return m
	}
	cf, sf := failSet(c.Faults.Check), failSet(c.Faults.MStart)
	return kit.MConfig{
		PreTrigger: g.Preview*g.FPS + g.Trigger - 1, Trigger: g.Trigger, MinFrames: g.Min * g.FPS, MaxFrames: g.Max * g.FPS, Continuous: g.Cont,
		Check: func() bool { checks++; return !cf[checks-1] },
		Start: func() bool { starts++; return !sf[starts-1] },
	}
}

func vfRecIDs(recs []kit.MRecording) string {
	s := ""
	for _, r := range recs {
		s += fmt.Sprint(r.IDs)
		if r.Open {
			s += "(open)"
		}
		s += " "
	}
	return s
}

func vfRunModelAgrees(c vfRecCase) *kit.Result {
	r := &kit.Result{}
	if msg := vfValidRecCase(c); msg != "" {
		r.Failf("malformed case: %s", msg)
		return r
	}
	run := vfDrive(c, nil)
	if run.panicked != "" {
		r.Failf("%s", run.panicked)
		return r
	}
	a := vfAnalyse(c, run)
	if a.protoEr != "" {
		r.Failf("%s", a.protoEr)
		return r
	}
	want := kit.RunModel(vfModelConfig(c), vfModelEvents(c, run))
	var got []kit.MRecording
	for _, rec := range a.recs {
		got = append(got, kit.MRecording{IDs: rec.IDs, Open: rec.StopEv < 0})
	}
	if vfRecIDs(got) != vfRecIDs(want.Motion) {
		r.Failf("motion recordings differ from the reference model:\n   got: %s\n  want: %s\n  trace:%s", vfRecIDs(got), vfRecIDs(want.Motion), vfTraceString(run.tr, 80))
		return r
	}
	if c.Cfg.Cont {
		crecs, msg := vfBrackets(run.tr, 'c')
		if msg != "" {
			r.Failf("%s", msg)
			return r
		}
		var gc []kit.MRecording
		for _, rec := range crecs {
			gc = append(gc, kit.MRecording{IDs: rec.IDs, Open: rec.StopEv < 0})
		}
		if vfRecIDs(gc) != vfRecIDs(want.Continuous) {
			r.Failf("continuous recordings differ from the reference model:\n   got: %s\n  want: %s", vfRecIDs(gc), vfRecIDs(want.Continuous))
			return r
		}
	}
	trecs, msg := vfBrackets(run.tr, 't')
	if msg != "" {
		r.Failf("%s", msg)
		return r
	}
	var gt []kit.MRecording
	for _, rec := range trecs {
		gt = append(gt, kit.MRecording{IDs: rec.IDs, Open: rec.StopEv < 0})
	}
	if vfRecIDs(gt) != vfRecIDs(want.Test) {
		r.Failf("test recordings differ from the reference model:\n   got: %s\n  want: %s", vfRecIDs(gt), vfRecIDs(want.Test))
		return r
	}
	n1, _, _, _ := a.classify(r)
	r.NT = n1
	return r
}

func TestVF_C01_Model(t *testing.T) {
	o := vfRecGenOpt{bad: true, reset: true, test: true, faultsCheckStart: true, window: true, maxEv: 300, cont: 1, variants: true}
	kit.Drive(t, "C01", "TestVF_C01_Model", vfRecDomain+"Oracle: the complete reference model of the recording behaviour (written from the statements of C01-C04, C13, C17) fed with the reported motion bits, the closed-form window and the refusal plan predicts every motion, continuous and test recording frame for frame. Non-trivial as in TestVF_C01.",
		vfGenRec(o), vfRunModelAgrees)
}

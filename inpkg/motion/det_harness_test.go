//go:build verif

package motion

// Shared pieces of the detector-level checks (C07, C08, C09, C15): a compact, shrinkable stream
// representation, its materialisation, and the reference detector written from the statement of C07.

import (
	"io"
	"log"
	"fmt"
	"time"

	config "github.com/TheCacophonyProject/go-config"
	"github.com/TheCacophonyProject/go-cptv/cptvframe"
	"pgregory.net/rapid"
)

func init() {
	// with verbose = true the detector reports statistics through the standard logger
	log.SetOutput(io.Discard)
}

type vfDetCfg struct {
	W, H, Edge    int
	T, D          uint16 // temp-thresh, delta-thresh
	Count, Gap    int
	Warmer        bool
	OneDiff       bool
	Dynamic       bool
	TMin, TMax    uint16
	PreviewFrames int // preview-secs*fps as seen by the detector
	Verbose       bool `json:",omitempty"` // the logging-only 'verbose' setting: must not change any result
	CamFPS        int  `json:",omitempty"` // frame rate the camera announces (0 = 9): detection does not depend on it
}

func (c vfDetCfg) fps() int {
	if c.CamFPS > 0 {
		return c.CamFPS
	}
	return 9
}

type vfMut struct {
	P int    `json:"p"` // y*W+x
	V uint16 `json:"v"`
}

// vfDetFrame describes one frame relative to the previous one.
type vfDetFrame struct {
	Reset   bool    `json:"reset,omitempty"` // camera reset before this frame
	TimeOn  uint32  `json:"on"`              // ms
	LastFFC uint32  `json:"ffc"`             // ms
	Fill    *uint16 `json:"fill,omitempty"`  // fill the whole frame with this value first
	Mut     []vfMut `json:"mut,omitempty"`
}

func (c vfDetCfg) motionConf() config.ThermalMotion {
	return config.ThermalMotion{
		DynamicThreshold: c.Dynamic, TempThreshMin: c.TMin, TempThreshMax: c.TMax, TempThresh: c.T,
		DeltaThresh: c.D, CountThresh: c.Count, FrameCompareGap: c.Gap, UseOneDiffOnly: c.OneDiff,
		TriggerFrames: 1, WarmerOnly: c.Warmer, EdgePixels: c.Edge, Verbose: c.Verbose,
	}
}

func (c vfDetCfg) valid() string {
	if c.W < 1 || c.H < 1 || c.W > 640 || c.H > 512 || c.Edge < 0 || 2*c.Edge >= c.W || 2*c.Edge >= c.H {
		return "bad geometry"
	}
	if c.Count < 1 || c.Gap < 1 || c.Gap > 64 || c.PreviewFrames < 0 {
		return "configuration outside the property's domain"
	}
	return ""
}

func (c vfDetCfg) interior(p int) bool {
	x, y := p%c.W, p/c.W
	return x >= c.Edge && x < c.W-c.Edge && y >= c.Edge && y < c.H-c.Edge
}

// vfMaterialise turns the relative description into absolute pixel arrays (flat, row-major).
func vfMaterialise(c vfDetCfg, fr []vfDetFrame, base uint16) [][]uint16 {
	out := make([][]uint16, len(fr))
	prev := make([]uint16, c.W*c.H)
	for i := range prev {
		prev[i] = base
	}
	for n, f := range fr {
		cur := append([]uint16{}, prev...)
		if f.Fill != nil {
			for i := range cur {
				cur[i] = *f.Fill
			}
		}
		for _, m := range f.Mut {
			if m.P >= 0 && m.P < len(cur) {
				cur[m.P] = m.V
			}
		}
		out[n] = cur
		prev = cur
	}
	return out
}

func vfToFrame(c vfDetCfg, pix []uint16, f vfDetFrame, id int, out *cptvframe.Frame) {
	for y := 0; y < c.H; y++ {
		copy(out.Pix[y], pix[y*c.W:(y+1)*c.W])
	}
	out.Status = cptvframe.Telemetry{
		TimeOn:      time.Duration(f.TimeOn) * time.Millisecond,
		LastFFCTime: time.Duration(f.LastFFC) * time.Millisecond,
		FrameCount:  id,
	}
}

func vfAffected(f vfDetFrame) bool {
	return time.Duration(f.TimeOn)*time.Millisecond-time.Duration(f.LastFFC)*time.Millisecond < 10*time.Second
}

// vfRefDetect is the detector of the statement of C07 (no FFC handling): frame n is motion iff it is not
// the first frame of its epoch and at least Count interior pixels have d_n(p) > D (and d_{n-1}(p) > D
// unless one-diff), where d_n compares frame n with frame max(epochStart, n-gap) after raising both to T.
// thr gives the threshold in force at each frame (constant for a fixed threshold).
// It also reports, per frame, the qualifying pixel count and whether a boundary value was involved.
type vfRefOut struct {
	Motion   []bool
	Count    []int
	Boundary []bool
}

func vfRefDetect(c vfDetCfg, pix [][]uint16, resets []bool, thr func(n int) uint16) vfRefOut {
	n := len(pix)
	out := vfRefOut{Motion: make([]bool, n), Count: make([]int, n), Boundary: make([]bool, n)}
	epoch := 0
	var prevD []int32
	clamp := func(v, t uint16) int32 {
		if v < t {
			return int32(t)
		}
		return int32(v)
	}
	for i := 0; i < n; i++ {
		if resets[i] {
			epoch = i
			prevD = nil
		}
		ref := i - c.Gap
		if ref < epoch {
			ref = epoch
		}
		t := thr(i)
		d := make([]int32, c.W*c.H)
		cnt := 0
		for p := 0; p < c.W*c.H; p++ {
			if !c.interior(p) {
				continue
			}
			a, b := clamp(pix[i][p], t), clamp(pix[ref][p], t)
			v := a - b
			if v < 0 {
				if c.Warmer {
					v = 0
				} else {
					v = -v
				}
			}
			d[p] = v
			if v == int32(c.D) || v == int32(c.D)+1 || pix[i][p] == t {
				out.Boundary[i] = true
			}
			ok := v > int32(c.D)
			if ok && !c.OneDiff {
				ok = prevD != nil && prevD[p] > int32(c.D)
			}
			if ok {
				cnt++
			}
		}
		out.Count[i] = cnt
		out.Motion[i] = i != epoch && cnt >= c.Count
		prevD = d
	}
	return out
}

// ---------------------------------------------------------------------------------------------
// generators

func vfGenDetCfg(t *rapid.T, dynamic bool, big bool) vfDetCfg {
	c := vfDetCfg{}
	if big && rapid.IntRange(0, 40).Draw(t, "big") == 0 {
		c.W, c.H = 160, 120
	} else {
		c.W = rapid.IntRange(3, 12).Draw(t, "w")
		c.H = rapid.IntRange(3, 10).Draw(t, "h")
	}
	maxEdge := (min(c.W, c.H) - 1) / 2
	if maxEdge > 3 {
		maxEdge = 3
	}
	c.Edge = rapid.IntRange(0, maxEdge).Draw(t, "edge")
	c.T = rapid.SampledFrom([]uint16{0, 1, 1000, 2900, 28000, 65000}).Draw(t, "T")
	// the top of the range (where no difference can exceed the threshold any more) in one case in 10
	c.D = rapid.SampledFrom([]uint16{0, 1, 20, 50, 200, 5000, 0, 1, 20, 50, 200, 5000, 0, 1, 20, 50, 200, 5000, 65534, 65535}).Draw(t, "D")
	interior := (c.W - 2*c.Edge) * (c.H - 2*c.Edge)
	c.Count = rapid.OneOf(rapid.SampledFrom([]int{1, 1, 2, 3, interior}), rapid.IntRange(1, interior)).Draw(t, "count")
	if c.Count > interior {
		c.Count = interior
	}
	if rapid.IntRange(0, 9).Draw(t, "hugecount") == 0 {
		// more pixels than the image has (nothing may ever be reported), around the widths of narrower integer types
		k := rapid.IntRange(0, interior).Draw(t, "countk")
		c.Count = rapid.SampledFrom([]int{interior + 1, 255 + k, 256 + k, 65535 + k, 65536 + k, 1<<31 - 1, 1<<31 + k, 1<<32 + k}).Draw(t, "countbase")
	}
	c.Gap = rapid.SampledFrom([]int{1, 1, 2, 3, 4, 6}).Draw(t, "gap")
	c.Warmer = rapid.Bool().Draw(t, "warmer")
	c.OneDiff = rapid.Bool().Draw(t, "onediff")
	c.Dynamic = dynamic
	c.PreviewFrames = rapid.IntRange(0, 6).Draw(t, "previewframes")
	c.Verbose = rapid.IntRange(0, 3).Draw(t, "verbose") == 0
	c.CamFPS = rapid.SampledFrom([]int{0, 0, 1, 2, 8, 10, 30, 60}).Draw(t, "camfps")
	if !dynamic && rapid.IntRange(0, 3).Draw(t, "stray_bounds") == 0 {
		// temp-thresh-min / max are dynamic-threshold settings: with a fixed threshold they must not matter
		c.TMin = rapid.SampledFrom([]uint16{0, 500, 3200, 40000}).Draw(t, "stray_tmin")
		c.TMax = rapid.SampledFrom([]uint16{0, 800, 2800, 50000}).Draw(t, "stray_tmax")
	}
	if dynamic {
		switch rapid.IntRange(0, 3).Draw(t, "bounds") {
		case 1:
			c.TMin = rapid.SampledFrom([]uint16{1, 900, 3000}).Draw(t, "tmin")
		case 2:
			c.TMax = rapid.SampledFrom([]uint16{1100, 4000, 60000}).Draw(t, "tmax")
		case 3:
			c.TMin = rapid.SampledFrom([]uint16{900, 3000}).Draw(t, "tmin")
			c.TMax = c.TMin + rapid.SampledFrom([]uint16{0, 1, 1000}).Draw(t, "tspan")
		}
	}
	return c
}

// vfGenValue draws pixel values around the thresholds.
func vfGenValue(t *rapid.T, c vfDetCfg, around uint16) uint16 {
	T, D := int(c.T), int(c.D)
	cands := []int{0, T - 1, T, T + 1, T + D - 1, T + D, T + D + 1, T + 2*D + 2, int(around) + D, int(around) + D + 1, int(around) - D - 1, int(around), 65535, int(around) + 1, int(around) + 2, int(around) - 1, int(around) + D + 3}
	k := rapid.IntRange(0, len(cands)+2).Draw(t, "vk")
	if k >= len(cands) {
		return uint16(rapid.IntRange(0, 65535).Draw(t, "v"))
	}
	v := cands[k]
	if v < 0 {
		v = 0
	}
	if v > 65535 {
		v = 65535
	}
	return uint16(v)
}

func vfGenMuts(t *rapid.T, c vfDetCfg, around uint16, maxN int) []vfMut {
	n := rapid.IntRange(0, maxN).Draw(t, "nmut")
	var out []vfMut
	for i := 0; i < n; i++ {
		var p int
		if rapid.IntRange(0, 3).Draw(t, "borderish") == 0 {
			p = rapid.IntRange(0, c.W*c.H-1).Draw(t, "p")
		} else {
			// interior pixel, with emphasis on the interior boundary
			x := rapid.SampledFrom([]int{c.Edge, c.W - c.Edge - 1, rapid.IntRange(c.Edge, c.W-c.Edge-1).Draw(t, "x")}).Draw(t, "xs")
			y := rapid.SampledFrom([]int{c.Edge, c.H - c.Edge - 1, rapid.IntRange(c.Edge, c.H-c.Edge-1).Draw(t, "y")}).Draw(t, "ys")
			p = y*c.W + x
		}
		out = append(out, vfMut{P: p, V: vfGenValue(t, c, around)})
	}
	return out
}

// vfGenTimeline draws telemetry for n frames: ffc=false keeps every frame clear of FFC periods.
func vfGenTimeline(t *rapid.T, n int, ffc bool, resets bool) []vfDetFrame {
	fr := make([]vfDetFrame, n)
	on := uint32(60000)
	last := uint32(0)
	if ffc && rapid.IntRange(0, 5).Draw(t, "poweron") == 0 {
		// the camera has just been powered on: time-on starts near 0 and the last FFC is the power-on FFC at time 0
		on = uint32(rapid.SampledFrom([]int{0, 1, 500, 9000, 9900}).Draw(t, "on0"))
	}
	if rapid.IntRange(0, 7).Draw(t, "longuptime") == 0 {
		// weeks of uptime: the millisecond counters approach and pass 2^31 (the camera's own counter has 32 bits)
		on = rapid.SampledFrom([]uint32{1<<31 - 2000, 1 << 31, 3000000000, 1<<32 - 600000}).Draw(t, "uptime")
	}
	for i := range fr {
		step := uint32(111)
		if ffc {
			step = rapid.SampledFrom([]uint32{100, 111, 111, 111, 1000, 3000, 5000, 9999, 10000, 12000}).Draw(t, "step")
		}
		on += step
		if ffc && rapid.IntRange(0, 7).Draw(t, "ffcevent") == 0 {
			switch rapid.IntRange(0, 5).Draw(t, "ffckind") {
			case 0, 1, 2:
				last = on // FFC right now
			case 3:
				last = on - rapid.SampledFrom([]uint32{1, 5000, 9999, 10000}).Draw(t, "ago")
			case 4:
				last = on + 500 // corner: LastFFCTime ahead of TimeOn
			case 5:
				last = on - 10001
			}
		}
		fr[i].TimeOn, fr[i].LastFFC = on, last
		if resets && i > 0 && rapid.IntRange(0, 11).Draw(t, "reset") == 0 {
			fr[i].Reset = true
		}
	}
	if ffc && n > 0 && rapid.IntRange(0, 5).Draw(t, "ffcAtStart") == 0 {
		fr[0].LastFFC = fr[0].TimeOn - 2000
		for i := 1; i < n && fr[i].LastFFC == 0; i++ {
			fr[i].LastFFC = fr[0].LastFFC
		}
	}
	return fr
}

func vfGenScene(t *rapid.T, c vfDetCfg, fr []vfDetFrame, base uint16, maxMut int) {
	for i := range fr {
		if rapid.IntRange(0, 9).Draw(t, "fill") == 0 {
			v := vfGenValue(t, c, base)
			fr[i].Fill = &v
		}
		fr[i].Mut = vfGenMuts(t, c, base, maxMut)
	}
}

func vfGenBase(t *rapid.T, c vfDetCfg) uint16 {
	return rapid.SampledFrom([]uint16{c.T, c.T + c.D + 7, 2000, 3000, 5461, 30000, 100}).Draw(t, "base")
}

// vfDetRun feeds absolute frames to a fresh detector, returning Detect() per frame; after (if not nil)
// is called after each frame with the detector for in-package inspection.
func vfDetRun(c vfDetCfg, fr []vfDetFrame, pix [][]uint16, after func(n int, d *motionDetector, f *cptvframe.Frame)) []bool {
	cam := vfCam{c.W, c.H, c.fps()}
	d := NewMotionDetector(c.motionConf(), c.PreviewFrames, cam)
	f := cptvframe.NewFrame(cam)
	out := make([]bool, len(fr))
	for n := range fr {
		if fr[n].Reset {
			d.Reset(cam)
		}
		vfToFrame(c, pix[n], fr[n], n, f)
		out[n] = d.Detect(f)
		if after != nil {
			after(n, d, f)
		}
	}
	return out
}

func vfBits(b []bool) string {
	s := make([]byte, len(b))
	for i, v := range b {
		s[i] = '0'
		if v {
			s[i] = '1'
		}
	}
	return string(s)
}

var _ = fmt.Sprint

//go:build verif

package motion

import (
	"fmt"
	"testing"

	"github.com/TheCacophonyProject/lepton3"
	"pgregory.net/rapid"
	kit "verifkit"
)

// C13 (processor part): bad frames are never recorded or buffered, never enter the detector's history,
// end the recording in progress with a stop, and processing resumes with the next frame.

func vfGenC13(t *rapid.T) vfRecCase {
	o := vfRecGenOpt{bad: true, reset: true, test: true, maxEv: 260, cont: 1, variants: true, scale: true}
	c := vfRecCase{Cfg: vfGenRecCfg(t, o)}
	c.Ev = vfGenEvents(t, c.Cfg, o)
	// plant bad frames at chosen positions relative to triggers: inside motion runs, right after them
	// (inside the pre-trigger window of the next recording), back to back
	n := rapid.IntRange(1, 5).Draw(t, "nbad")
	for i := 0; i < n && len(c.Ev) > 0; i++ {
		at := rapid.IntRange(0, len(c.Ev)).Draw(t, "badat")
		k := rapid.IntRange(1, 2).Draw(t, "badrun")
		bad := make([]vfEv, k)
		for j := range bad {
			bad[j] = vfEv{K: vfEvBad, T: 12*3600 + 1800}
		}
		c.Ev = append(c.Ev[:at], append(bad, c.Ev[at:]...)...)
	}
	c.Lepton = rapid.Bool().Draw(t, "lepton")
	if rapid.IntRange(0, 2).Draw(t, "failingstops") == 0 {
		// the stop that a bad frame forces may itself fail (the file cannot be renamed): the frame is a bad frame all
		// the same, and is reported as one
		c.Faults.MStop = vfGenOrdinals(t, "mstopfail", 3)
		c.Faults.CStop = vfGenOrdinals(t, "cstopfail", 4)
		if rapid.Bool().Draw(t, "allmstops") {
			c.Faults.MStop = []int{0, 1, 2, 3, 4, 5, 6, 7, 8, 9}
		}
	}
	return c
}

func vfRunC13(c vfRecCase) *kit.Result {
	r := &kit.Result{}
	if msg := vfValidRecCase(c); msg != "" || c.ProcessFrame {
		r.Failf("malformed case: %s", msg)
		return r
	}
	var errTypes []string
	run := vfDrive(c, nil)
	tr := run.tr
	fail := func(format string, a ...interface{}) *kit.Result {
		r.Failf(format, a...)
		r.Err += "\n  trace:" + vfTraceString(tr, 120)
		return r
	}
	if run.panicked != "" {
		return fail("%s", run.panicked)
	}
	_ = errTypes
	if run.badNotReported != "" {
		return fail("%s", run.badNotReported)
	}
	// no rejected frame ever reaches a sink
	for _, cl := range tr.calls {
		if cl.C == 'W' && cl.ID < 0 {
			return fail("sink %c received the bad frame of event %d", cl.S, cl.Ev)
		}
	}
	// a recording in progress ends with a stop at the bad frame; so does the continuous file
	for _, s := range []byte{'m', 'c'} {
		recs, msg := vfBrackets(tr, s)
		if msg != "" {
			return fail("%s", msg)
		}
		for k, rec := range recs {
			for i, e := range c.Ev {
				if e.K != vfEvBad || i <= rec.StartEv {
					continue
				}
				if rec.StopEv < 0 || rec.StopEv > i {
					return fail("sink %c: recording %d (started at event %d) was not stopped at the bad frame of event %d", s, k, rec.StartEv, i)
				}
			}
		}
	}
	// everything else: the reference model (bad frames are not accepted frames: ids skip them, pre-trigger
	// contents are accepted frames only, processing resumes with the next frame)
	want := kit.RunModel(vfModelConfig(c), vfModelEvents(c, run))
	for _, s := range []struct {
		name byte
		want []kit.MRecording
	}{{'m', want.Motion}, {'c', want.Continuous}, {'t', want.Test}} {
		if s.name == 'c' && !c.Cfg.Cont {
			continue
		}
		recs, _ := vfBrackets(tr, s.name)
		var got []kit.MRecording
		for _, rec := range recs {
			got = append(got, kit.MRecording{IDs: rec.IDs, Open: rec.StopEv < 0})
		}
		if vfRecIDs(got) != vfRecIDs(s.want) {
			return fail("sink %c recordings differ from the reference model:\n   got: %s\n  want: %s", s.name, vfRecIDs(got), vfRecIDs(s.want))
		}
	}
	// the detector never sees a bad frame: deleting the bad frames from the history changes no result
	del := c
	del.Ev = nil
	var keep []int
	for i, e := range c.Ev {
		if e.K != vfEvBad {
			del.Ev = append(del.Ev, e)
			keep = append(keep, i)
		}
	}
	run2 := vfDrive(del, nil)
	if run2.panicked != "" {
		return fail("history without the bad frames: %s", run2.panicked)
	}
	for j, i := range keep {
		if c.Ev[i].K == vfEvFrame && tr.motion[i] != run2.tr.motion[j] {
			return fail("detection at event %d is %v, but %v when the bad frames are deleted from the stream (a bad frame entered the detector's history)", i, tr.motion[i], run2.tr.motion[j])
		}
	}
	badInRec, badInPre := false, false
	mrecs, _ := vfBrackets(tr, 'm')
	for i, e := range c.Ev {
		if e.K != vfEvBad {
			continue
		}
		for _, rec := range mrecs {
			if rec.StartEv < i && rec.StopEv == i {
				badInRec = true
			}
			if rec.StartEv > i && len(rec.IDs) > 0 {
				// bad frame between the first pre-trigger frame and the trigger
				if run.accepted[rec.IDs[0]] < i {
					badInPre = true
				}
			}
		}
	}
	if badInRec {
		r.Class("bad_inside_recording")
	}
	if badInPre {
		r.Class("bad_inside_pretrigger_window")
	}
	if c.Lepton {
		r.Class("lepton_parser")
	}
	r.NT = badInRec && badInPre
	return r
}

func TestVF_C13_Proc(t *testing.T) {
	kit.Drive(t, "C13", "TestVF_C13_Proc",
		vfRecDomain+"Bad frames (a zero interior pixel) are planted at generated positions, singly and back to back, and fed through the harness parser or the real lepton3.ParseRawFrame. Oracle: no sink receives a rejected frame; the motion recording and the continuous file in progress are stopped at the bad frame; all three sinks equal the reference model in which bad frames are not accepted frames; deleting the bad frames from the stream changes no detection result. Non-trivial: a bad frame inside a recording and one inside the pre-trigger window of a later recording.",
		vfGenC13, vfRunC13)
}

var _ = fmt.Sprint
var _ = lepton3.Model

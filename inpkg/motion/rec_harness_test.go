//go:build verif

package motion

// Shared harness for the recording-level checks (C01-C04, C12, C13, C17): drives a real
// MotionProcessor (real detector, real ring buffer) with synthesised frames and records every call
// the three sinks receive together with the stream position at which it happened.

import (
	"encoding/binary"
	"errors"
	"fmt"
	"time"

	config "github.com/TheCacophonyProject/go-config"
	"github.com/TheCacophonyProject/go-cptv/cptvframe"
	"github.com/TheCacophonyProject/lepton3"
	"github.com/TheCacophonyProject/thermal-recorder/recorder"
	"github.com/TheCacophonyProject/window"
	"pgregory.net/rapid"
)

// event kinds
const (
	vfEvFrame = 0 // valid frame; M = wanted motion bit
	vfEvBad   = 1 // bad frame (parser reports an error)
	vfEvReset = 2 // camera reset ('clear')
	vfEvTest  = 3 // test-recording request
)

type vfEv struct {
	K int   `json:"k"`
	M bool  `json:"m,omitempty"`
	T int64 `json:"t,omitempty"` // wall clock at this event: seconds since 00:00 UTC of day 0 (may exceed a day)
	N int64 `json:"n,omitempty"` // nanosecond part of the wall clock
	F bool  `json:"f,omitempty"` // (valid frame, harness parser) telemetry says a flat-field correction ran 1 s ago
}

type vfRecCfg struct {
	FPS, Preview, Min, Max, Trigger int
	W, H, Edge                      int
	Gap                             int  // frame-compare-gap
	TwoDiff                         bool // use-one-diff-only = false
	Cont                            bool // continuous recorder on
	WinStart, WinEnd                int  // minutes of day; equal => no window
}

type vfFaults struct {
	// call ordinals (0-based, per sink and call type) that return an error
	Check, MStart, MWrite, MStop []int
	CStart, CWrite, CStop        []int
	TStart, TWrite, TStop        []int
}

type vfRecCase struct {
	Cfg          vfRecCfg `json:"cfg"`
	Ev           []vfEv   `json:"ev"`
	Faults       vfFaults `json:"faults"`
	ProcessFrame bool     `json:"process_frame,omitempty"` // feed through ProcessFrame() instead of Process()
	Lepton       bool     `json:"lepton,omitempty"`        // raw Lepton frames through lepton3.ParseRawFrame instead of the harness parser
	// FrameBase: the processor's running frame number (a 32-bit counter the daemon reports to snapshot clients) at
	// the start of the stream, as if the connection had already delivered that many frames
	FrameBase uint32 `json:"frame_base,omitempty"`
}

// vfCall is one call received by a sink.
type vfCall struct {
	S   byte // 'm' motion, 'c' continuous, 't' test
	C   byte // 'K' CheckCanRecord, 'S' StartRecording, 'W' WriteFrame, 'P' StopRecording
	Ev  int  // index of the event being processed when the call was made
	ID  int  // frame id (accepted-frame ordinal) for W, else -1
	Err bool // the call returned an error (injected)
	Thr uint16
	Bg  uint64 // hash of the background handed to S
}

func (c vfCall) String() string {
	s := fmt.Sprintf("%c%c@%d", c.S, c.C, c.Ev)
	if c.C == 'W' {
		s += fmt.Sprintf("#%d", c.ID)
	}
	if c.Err {
		s += "!"
	}
	return s
}

type vfTrace struct {
	calls  []vfCall
	curEv  int
	motion map[int]bool // event index -> MotionDetected callback seen
	started, ended []int
}

type vfSink struct {
	tr     *vfTrace
	name   byte
	fail   map[byte]map[int]bool
	count  map[byte]int
	bgHook func(bg *cptvframe.Frame, thr uint16)
}

func vfNewSink(tr *vfTrace, name byte, check, start, write, stop []int) *vfSink {
	mk := func(l []int) map[int]bool {
		m := map[int]bool{}
		for _, i := range l {
			m[i] = true
		}
		return m
	}
	return &vfSink{tr: tr, name: name, count: map[byte]int{},
		fail: map[byte]map[int]bool{'K': mk(check), 'S': mk(start), 'W': mk(write), 'P': mk(stop)}}
}

var vfInjected = errors.New("injected sink failure")

func (s *vfSink) call(c byte, id int, thr uint16, bg uint64) error {
	n := s.count[c]
	s.count[c] = n + 1
	fail := s.fail[c][n]
	s.tr.calls = append(s.tr.calls, vfCall{S: s.name, C: c, Ev: s.tr.curEv, ID: id, Err: fail, Thr: thr, Bg: bg})
	if fail {
		return vfInjected
	}
	return nil
}

func vfFrameHash(f *cptvframe.Frame) uint64 {
	if f == nil {
		return 0
	}
	var h uint64 = 1469598103934665603
	for _, row := range f.Pix {
		for _, v := range row {
			h ^= uint64(v)
			h *= 1099511628211
		}
	}
	return h
}

func (s *vfSink) CheckCanRecord() error { return s.call('K', -1, 0, 0) }
func (s *vfSink) StartRecording(bg *cptvframe.Frame, thr uint16) error {
	if s.bgHook != nil {
		s.bgHook(bg, thr)
	}
	return s.call('S', -1, thr, vfFrameHash(bg))
}
func (s *vfSink) WriteFrame(f *cptvframe.Frame) error { return s.call('W', f.Status.FrameCount, 0, 0) }
func (s *vfSink) StopRecording() error                { return s.call('P', -1, 0, 0) }

var _ recorder.Recorder = (*vfSink)(nil)

type vfListener struct{ tr *vfTrace }

func (l *vfListener) MotionDetected()   { l.tr.motion[l.tr.curEv] = true }
func (l *vfListener) RecordingStarted() { l.tr.started = append(l.tr.started, l.tr.curEv) }
func (l *vfListener) RecordingEnded()   { l.tr.ended = append(l.tr.ended, l.tr.curEv) }

// raw frame format of the harness parser: kind(1) id(4) timeOnMs(4) lastFFCMs(4) then w*h little-endian pixels
const vfRawHdr = 13

var vfBadFrame = &lepton3.BadFrameErr{Cause: errors.New("harness bad frame")}

func vfParse(raw []byte, out *cptvframe.Frame, edge int) error {
	// like the real parsers, fill the frame while decoding; a bad frame leaves garbage behind
	out.Status = cptvframe.Telemetry{
		FrameCount:  int(int32(binary.LittleEndian.Uint32(raw[1:]))),
		TimeOn:      time.Duration(binary.LittleEndian.Uint32(raw[5:])) * time.Millisecond,
		LastFFCTime: time.Duration(binary.LittleEndian.Uint32(raw[9:])) * time.Millisecond,
	}
	i := vfRawHdr
	for y := range out.Pix {
		for x := range out.Pix[y] {
			out.Pix[y][x] = binary.LittleEndian.Uint16(raw[i:])
			i += 2
			// like the real parsers: a zero outside the edge border (as told by the processor) is a bad frame
			onEdge := y < edge || x < edge || y >= len(out.Pix)-edge || x >= len(out.Pix[y])-edge
			if !onEdge && out.Pix[y][x] == 0 {
				return vfBadFrame
			}
		}
	}
	if raw[0] != 0 {
		return vfBadFrame
	}
	return nil
}

const (
	vfBase  = 2000 // scene level, above temp-thresh
	vfTemp  = 1000
	vfDelta = 50
)

func vfMotionConf(c vfRecCfg) *config.ThermalMotion {
	gap := c.Gap
	if gap < 1 {
		gap = 1
	}
	return &config.ThermalMotion{
		TempThresh: vfTemp, DeltaThresh: vfDelta, CountThresh: 1, FrameCompareGap: gap,
		UseOneDiffOnly: !c.TwoDiff, TriggerFrames: c.Trigger, WarmerOnly: false, EdgePixels: c.Edge,
	}
}

var vfDay0 = time.Date(2021, 6, 1, 0, 0, 0, 0, time.UTC)

func vfHHMM(min int) string { return fmt.Sprintf("%02d:%02d", (min/60)%24, min%60) }

// vfWindowActive is the closed form of the recording window: start <= time-of-day < end (mod 24h);
// start == end means no window (always active).
func vfWindowActive(c vfRecCfg, e vfEv) bool {
	if c.WinStart == c.WinEnd {
		return true
	}
	day := int64(24 * 3600)
	tod := (e.T%day)*int64(time.Second) + e.N
	s := int64(c.WinStart) * 60 * int64(time.Second)
	en := int64(c.WinEnd) * 60 * int64(time.Second)
	if s < en {
		return s <= tod && tod < en
	}
	return tod >= s || tod < en
}

type vfRecRun struct {
	tr       *vfTrace
	accepted []int // event index of each accepted frame (position = frame id)
	idOf     map[int]int
	panicked string
	badNotReported string
	mp       *MotionProcessor
	intended map[int]bool
}

// vfDrive runs the case against a real MotionProcessor and returns the trace.
func vfDrive(c vfRecCase, perEvent func(run *vfRecRun, i int)) *vfRecRun {
	cam := vfCam{c.Cfg.W, c.Cfg.H, c.Cfg.FPS}
	tr := &vfTrace{motion: map[int]bool{}}
	run := &vfRecRun{tr: tr, idOf: map[int]int{}, intended: map[int]bool{}}
	now := vfDay0
	w, err := window.New(vfHHMM(c.Cfg.WinStart), vfHHMM(c.Cfg.WinEnd), 0, 0)
	if err != nil {
		panic(err)
	}
	w.Now = func() time.Time { return now }
	rc := &recorder.RecorderConfig{MinSecs: c.Cfg.Min, MaxSecs: c.Cfg.Max, PreviewSecs: c.Cfg.Preview, Window: *w, ConstantRecorder: c.Cfg.Cont}
	f := c.Faults
	msink := vfNewSink(tr, 'm', f.Check, f.MStart, f.MWrite, f.MStop)
	tsink := vfNewSink(tr, 't', nil, f.TStart, f.TWrite, f.TStop)
	var csink recorder.Recorder
	var cs *vfSink
	if c.Cfg.Cont {
		cs = vfNewSink(tr, 'c', nil, f.CStart, f.CWrite, f.CStop)
		csink = cs
	} else {
		csink = (*vfSink)(nil) // typed nil, as main.go passes a nil *CPTVFileRecorder
	}
	var parser FrameParser = vfParse
	if c.Lepton {
		parser = lepton3.ParseRawFrame
	}
	mp := NewMotionProcessor(parser, vfMotionConf(c.Cfg), rc, &config.Location{}, &vfListener{tr}, msink, cam, csink, tsink)
	run.mp = mp
	if c.FrameBase != 0 {
		mp.CurrentFrame = c.FrameBase
	}

	raw := make([]byte, vfRawHdr+2*c.Cfg.W*c.Cfg.H)
	if c.Lepton {
		raw = make([]byte, 640+2*c.Cfg.W*c.Cfg.H)
	}
	level := false // state of the toggling pixel in the last accepted frame
	src := cptvframe.NewFrame(cam)
	ffc := false
	fill := func(id int, bad bool, lvl bool) {
		put := func(i int, v uint16) { binary.LittleEndian.PutUint16(raw[vfRawHdr+2*i:], v) }
		if c.Lepton {
			for i := range raw[:640] {
				raw[i] = 0
			}
			w := func(i int, v uint16) { binary.BigEndian.PutUint16(raw[2*i:], v) }
			on := uint32(60000 + 111*len(run.accepted))
			w(1, uint16(on))
			w(2, uint16(on>>16))
			w(20, uint16(uint32(int32(id))))
			w(21, uint16(uint32(int32(id))>>16))
			put = func(i int, v uint16) { binary.BigEndian.PutUint16(raw[640+2*i:], v) }
		} else {
			if bad {
				raw[0] = 1
			} else {
				raw[0] = 0
			}
			binary.LittleEndian.PutUint32(raw[1:], uint32(int32(id)))
			binary.LittleEndian.PutUint32(raw[5:], uint32(60000+111*len(run.accepted)))
			binary.LittleEndian.PutUint32(raw[9:], 0)
			if ffc {
				binary.LittleEndian.PutUint32(raw[9:], uint32(60000+111*len(run.accepted)-1000))
			}
		}
		i := 0
		for y := 0; y < c.Cfg.H; y++ {
			for x := 0; x < c.Cfg.W; x++ {
				v := uint16(vfBase)
				onEdge := y < c.Cfg.Edge || x < c.Cfg.Edge || y >= c.Cfg.H-c.Cfg.Edge || x >= c.Cfg.W-c.Cfg.Edge
				if onEdge {
					v = uint16((id*7 + x + y) % 5) // border content is irrelevant, zeros included
				}
				if y == c.Cfg.Edge && x == c.Cfg.Edge && lvl {
					v = vfBase + vfDelta + 1
				}
				if bad && y == c.Cfg.Edge && x == c.Cfg.Edge {
					v = 0
				}
				put(i, v)
				i++
			}
		}
	}
	func() {
		defer func() {
			if p := recover(); p != nil {
				run.panicked = fmt.Sprintf("panic while processing event %d: %v", tr.curEv, p)
			}
		}()
		for i, e := range c.Ev {
			tr.curEv = i
			now = vfDay0.Add(time.Duration(e.T)*time.Second + time.Duration(e.N))
			switch e.K {
			case vfEvFrame:
				id := len(run.accepted)
				if e.M {
					level = !level
				}
				run.intended[i] = e.M
				ffc = e.F
				fill(id, false, level)
				ffc = false
				run.accepted = append(run.accepted, i)
				run.idOf[i] = id
				if c.ProcessFrame {
					parser(raw, src, c.Cfg.Edge)
					mp.ProcessFrame(src)
				} else if err := mp.Process(raw); err != nil {
					run.panicked = fmt.Sprintf("valid frame at event %d rejected: %v", i, err)
					return
				}
			case vfEvBad:
				fill(-1000-i, true, !level)
				if c.ProcessFrame {
					break // no bad frames on this path
				}
				err := mp.Process(raw)
				if err == nil {
					run.panicked = fmt.Sprintf("bad frame at event %d accepted", i)
					return
				}
				// a bad frame must be reported as such (how the daemon reacts to it is checked end to end)
				var bfe *lepton3.BadFrameErr
				if !errors.As(err, &bfe) && run.badNotReported == "" {
					run.badNotReported = fmt.Sprintf("the bad frame at event %d is not reported as a bad frame: Process returned %T (%v), not a *lepton3.BadFrameErr", i, err, err)
				}
			case vfEvReset:
				mp.Reset(cam)
			case vfEvTest:
				mp.StartSnapshot = true
			}
			if perEvent != nil {
				perEvent(run, i)
			}
		}
	}()
	return run
}

// vfRec is one bracket seen by a sink.
type vfRec struct {
	StartEv int   // event index of the successful StartRecording
	IDs     []int // frame ids written
	WEv     []int // event index of each write
	StopEv  int   // event index of the StopRecording (-1: still open at the end)
	StopErr bool
}

// vfBrackets checks the bracket protocol of one sink and returns its recordings.
// Protocol: W only while open; no S while open; P ends the bracket whatever it returns; a failed S opens nothing.
func vfBrackets(tr *vfTrace, sink byte) ([]vfRec, string) {
	var recs []vfRec
	open := false
	for _, c := range tr.calls {
		if c.S != sink {
			continue
		}
		switch c.C {
		case 'S':
			if open {
				return recs, fmt.Sprintf("sink %c: StartRecording at event %d while the recording started at event %d is still open", sink, c.Ev, recs[len(recs)-1].StartEv)
			}
			if !c.Err {
				open = true
				recs = append(recs, vfRec{StartEv: c.Ev, StopEv: -1})
			}
		case 'W':
			if !open {
				return recs, fmt.Sprintf("sink %c: WriteFrame(frame %d) at event %d outside start..stop", sink, c.ID, c.Ev)
			}
			r := &recs[len(recs)-1]
			r.IDs = append(r.IDs, c.ID)
			r.WEv = append(r.WEv, c.Ev)
		case 'P':
			if open {
				r := &recs[len(recs)-1]
				r.StopEv = c.Ev
				r.StopErr = c.Err
				open = false
			}
			// a stop while nothing is open is harmless (idempotent stop)
		}
	}
	return recs, ""
}

func vfTraceString(tr *vfTrace, max int) string {
	s := ""
	for i, c := range tr.calls {
		if i >= max {
			s += " ..."
			break
		}
		s += " " + c.String()
	}
	return s
}

// ---------------------------------------------------------------------------------------------
// generators

type vfRecGenOpt struct {
	bad, reset, test, faultsCheckStart, window, winTraj bool
	maxEv                                      int
	cont                                       int // 0 never, 1 sometimes, 2 always
	variants                                   bool
	ffc                                        bool // flat-field-correction periods (frames whose telemetry says so) in the streams
	scale                                      bool // sometimes a configuration at the scale the daemon ships with (9 fps, max-secs in minutes)
}

func vfGenRecCfg(t *rapid.T, o vfRecGenOpt) vfRecCfg {
	c := vfRecCfg{}
	c.FPS = rapid.SampledFrom([]int{1, 1, 2, 2, 3, 4, 9}).Draw(t, "fps")
	c.Preview = rapid.IntRange(0, 3).Draw(t, "preview")
	c.Trigger = rapid.IntRange(0, 4).Draw(t, "trigger")
	if c.Preview*c.FPS+c.Trigger < 1 {
		c.Trigger = 1
	}
	c.Min = rapid.IntRange(0, 3).Draw(t, "min")
	c.Max = c.Min + rapid.SampledFrom([]int{0, 0, 1, 1, 2, 3, 5}).Draw(t, "maxextra")
	if c.Max > 5 {
		c.Max = 5
	}
	if rapid.IntRange(0, 7).Draw(t, "large") == 0 {
		// long previews and limits at a low frame rate: ring sizes and frame counts well beyond the usual ones
		c.FPS = rapid.IntRange(1, 2).Draw(t, "fpsL")
		c.Preview = rapid.IntRange(0, 15).Draw(t, "previewL")
		c.Trigger = rapid.IntRange(0, 6).Draw(t, "triggerL")
		if c.Preview*c.FPS+c.Trigger < 1 {
			c.Trigger = 1
		}
		c.Min = rapid.IntRange(0, 20).Draw(t, "minL")
		c.Max = c.Min + rapid.IntRange(0, 20).Draw(t, "maxL")
	}
	if o.scale && rapid.IntRange(0, 15).Draw(t, "scale") == 0 {
		// the scale of the shipped configuration: frame counts in the hundreds and thousands
		c.FPS = rapid.SampledFrom([]int{9, 9, 30}).Draw(t, "fpsS")
		c.Preview = rapid.IntRange(1, 5).Draw(t, "previewS")
		c.Trigger = rapid.IntRange(1, 3).Draw(t, "triggerS")
		c.Min = rapid.IntRange(1, 10).Draw(t, "minS")
		c.Max = rapid.SampledFrom([]int{30, 60, 120, 600}).Draw(t, "maxS")
	}
	c.Edge = rapid.IntRange(0, 1).Draw(t, "edge")
	c.W = rapid.IntRange(2+2*c.Edge, 6).Draw(t, "w")
	c.H = rapid.IntRange(2+2*c.Edge, 5).Draw(t, "h")
	c.Gap = 1
	if o.variants && rapid.IntRange(0, 5).Draw(t, "variant") == 0 {
		c.Gap = rapid.IntRange(1, 3).Draw(t, "gap")
		c.TwoDiff = rapid.Bool().Draw(t, "twodiff")
	}
	switch o.cont {
	case 1:
		c.Cont = rapid.IntRange(0, 3).Draw(t, "cont") == 0
	case 2:
		c.Cont = true
	}
	if o.window && rapid.IntRange(0, 2).Draw(t, "haswin") > 0 {
		c.WinStart = rapid.SampledFrom([]int{0, 1, 600, 720, 1380, 1439}).Draw(t, "ws")
		c.WinEnd = rapid.SampledFrom([]int{0, 1, 5, 660, 725, 1439}).Draw(t, "we")
	}
	return c
}

// vfGenEvents builds an event list from a mixture of motion patterns tuned to the boundaries the
// configuration creates (trigger-1/trigger/trigger+1 runs, runs reaching the max cap, re-trigger gaps
// around the ring size).
func vfGenEvents(t *rapid.T, c vfRecCfg, o vfRecGenOpt) []vfEv {
	ring := c.Preview*c.FPS + c.Trigger
	maxF := c.Max * c.FPS
	minF := c.Min * c.FPS
	trig := c.Trigger
	if trig < 1 {
		trig = 1
	}
	var ev []vfEv
	clock := int64(12*3600 + 30*60) // 12:30
	inWin := func() int64 {
		if c.WinStart == c.WinEnd {
			return clock
		}
		// a time inside the window: its start minute plus a bit
		return int64(c.WinStart)*60 + 7
	}
	outWin := func() int64 { return int64(c.WinEnd)*60 + 3 } // the end minute itself is outside
	open := true
	stamp := func(e vfEv) vfEv {
		if open {
			e.T = inWin()
		} else {
			e.T = outWin()
		}
		return e
	}
	addFrames := func(n int, m bool) {
		for i := 0; i < n; i++ {
			ev = append(ev, stamp(vfEv{K: vfEvFrame, M: m}))
		}
	}
	if o.scale && maxF > 200 {
		// room for a couple of recordings that reach the cap
		o.maxEv = 2*maxF + 400
	}
	nseg := rapid.IntRange(1, 12).Draw(t, "segments")
	for s := 0; s < nseg && len(ev) < o.maxEv; s++ {
		if o.ffc && rapid.IntRange(0, 11).Draw(t, "ffcseg") == 0 {
			// an FFC period (any length in frames, the scene may keep moving), then the frames after it
			for i := rapid.SampledFrom([]int{1, 2, 3, ring, ring + 2, 12}).Draw(t, "ffclen"); i > 0; i-- {
				ev = append(ev, stamp(vfEv{K: vfEvFrame, M: rapid.Bool().Draw(t, "ffcm"), F: true}))
			}
			addFrames(rapid.IntRange(0, 3).Draw(t, "afterffc"), false)
			addFrames(trig+rapid.IntRange(0, 2).Draw(t, "ffcrun"), true)
			continue
		}
		switch rapid.IntRange(0, 11).Draw(t, "seg") {
		case 0, 1: // still frames, length around the ring size
			addFrames(rapid.SampledFrom([]int{0, 1, 2, ring - 1, ring, ring + 1, ring + 2, minF, minF + 1}).Draw(t, "still")%40, false)
		case 2: // motion run around trigger-frames
			n := trig + rapid.IntRange(-1, 1).Draw(t, "dt")
			if n < 0 {
				n = 0
			}
			addFrames(n, true)
		case 3: // sustained motion reaching the cap, possibly several recordings long
			addFrames((maxF+trig)*rapid.IntRange(1, 3).Draw(t, "caps")+rapid.IntRange(0, 3).Draw(t, "extra"), true)
		case 4: // blip then silence long enough to end the recording
			addFrames(trig, true)
			addFrames(minF+rapid.IntRange(0, 2).Draw(t, "tail"), false)
		case 5: // motion at a chosen offset inside a recording (extension right at the limit)
			addFrames(trig, true)
			k := minF - 1 + rapid.IntRange(-2, 1).Draw(t, "k")
			if k < 0 {
				k = 0
			}
			addFrames(k, false)
			addFrames(1, true)
		case 6: // arbitrary bits
			n := rapid.IntRange(1, 20).Draw(t, "n")
			for i := 0; i < n; i++ {
				addFrames(1, rapid.Bool().Draw(t, "bit"))
			}
		case 7:
			if o.bad {
				n := rapid.IntRange(1, 2).Draw(t, "nbad")
				for i := 0; i < n; i++ {
					ev = append(ev, stamp(vfEv{K: vfEvBad}))
				}
			} else {
				addFrames(1, true)
			}
		case 8:
			if o.reset {
				ev = append(ev, stamp(vfEv{K: vfEvReset}))
			} else {
				addFrames(2, true)
			}
		case 9:
			if o.test {
				ev = append(ev, stamp(vfEv{K: vfEvTest}))
			} else {
				addFrames(1, false)
			}
		case 10:
			if o.window && c.WinStart != c.WinEnd {
				open = !open
			} else {
				addFrames(ring, true)
			}
		case 11: // alternating bits (each frame toggles): dense short runs
			n := rapid.IntRange(2, 12).Draw(t, "n")
			for i := 0; i < n; i++ {
				addFrames(1, i%2 == 0)
			}
		}
	}
	if len(ev) > o.maxEv {
		ev = ev[:o.maxEv]
	}
	return ev
}

func vfGenOrdinals(t *rapid.T, label string, max int) []int {
	n := rapid.SampledFrom([]int{0, 0, 0, 1, 1, 2, 3}).Draw(t, label+"_n")
	out := []int{}
	seen := map[int]bool{}
	for i := 0; i < n; i++ {
		v := rapid.IntRange(0, max).Draw(t, label)
		if !seen[v] {
			seen[v] = true
			out = append(out, v)
		}
	}
	return out
}

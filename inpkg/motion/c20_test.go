//go:build verif

package motion

import (
	"bytes"
	"log"
	"strings"
	"testing"
	"time"

	"pgregory.net/rapid"
	kit "verifkit"
)

// C20 (recorder part): the processor's limiter uses a one-minute interval, and a single condition
// recurring on every frame (start refused) produces one log line, not one per frame.

type vfC20RecCase struct {
	Frames int  `json:"frames"` // motion frames in a row with the storage check failing
	Window bool `json:"window"` // refuse through a closed window instead of the storage check
	Resets []int `json:"resets,omitempty"` // camera resets after these frames
	// Kind of the recurring condition: 0 motion start refused, 1 continuous recorder cannot start (every frame),
	// 2 continuous recorder cannot stop (every frame, max-secs 0), 3 frame write failing during a recording,
	// 4 two conditions at once, their messages alternating: motion start refused and continuous recorder cannot start
	Kind int `json:"kind,omitempty"`
}

func vfGenC20Rec(t *rapid.T) vfC20RecCase {
	c := vfC20RecCase{Frames: rapid.IntRange(2, 120).Draw(t, "frames"), Window: rapid.Bool().Draw(t, "window")}
	c.Kind = rapid.IntRange(0, 4).Draw(t, "kind")
	for i := rapid.IntRange(0, 3).Draw(t, "nresets"); i > 0; i-- {
		c.Resets = append(c.Resets, rapid.IntRange(0, c.Frames-1).Draw(t, "resetafter"))
	}
	return c
}

func vfRunC20Rec(c vfC20RecCase) *kit.Result {
	r := &kit.Result{}
	if c.Frames < 1 || c.Frames > 2000 {
		r.Failf("malformed case")
		return r
	}
	if minLogInterval != time.Minute {
		r.Failf("the recorder's log interval is %v, want one minute", minLogInterval)
		return r
	}
	var buf bytes.Buffer
	oldW, oldF := log.Writer(), log.Flags()
	log.SetOutput(&buf)
	log.SetFlags(0)
	defer func() { log.SetOutput(oldW); log.SetFlags(oldF) }()
	rc := vfRecCase{Cfg: vfRecCfg{FPS: 9, Preview: 1, Min: 1, Max: 2, Trigger: 1, W: 4, H: 4, Edge: 1, Gap: 1}}
	want := "Recording not started"
	all := make([]int, 0, c.Frames+8)
	for i := 0; i < c.Frames+8; i++ {
		all = append(all, i)
	}
	switch c.Kind {
	case 1:
		rc.Cfg.Cont = true
		rc.Faults.CStart = all
		want = "error with starting constant recorder"
	case 2:
		rc.Cfg.Cont = true
		rc.Cfg.Min, rc.Cfg.Max = 0, 0
		rc.Faults.CStop = all
		want = "error with stoping constant recorder"
	case 3:
		rc.Cfg.Min, rc.Cfg.Max = 20, 20 // one long recording, every write fails
		for i := 0; i < 400; i++ {
			rc.Faults.MWrite = append(rc.Faults.MWrite, i)
		}
		want = "Failed to write to CPTV file"
	}
	if c.Kind == 4 {
		rc.Cfg.Cont = true
		rc.Faults.CStart = all
	}
	if c.Window && c.Kind == 0 {
		rc.Cfg.WinStart, rc.Cfg.WinEnd = 600, 660 // 10:00-11:00, clock at 12:30
	}
	rc.Ev = append(rc.Ev, vfEv{K: vfEvFrame, T: 12*3600 + 1800})
	resetAfter := map[int]bool{}
	for _, i := range c.Resets {
		resetAfter[i] = true
	}
	for i := 0; i < c.Frames; i++ {
		rc.Ev = append(rc.Ev, vfEv{K: vfEvFrame, M: c.Kind == 0 || c.Kind == 3 || c.Kind == 4, T: 12*3600 + 1800})
		if (!c.Window && c.Kind == 0) || c.Kind == 4 {
			rc.Faults.Check = append(rc.Faults.Check, i)
		}
		if resetAfter[i] && c.Kind == 0 {
			// a camera reset in between does not make the condition a new one
			rc.Ev = append(rc.Ev, vfEv{K: vfEvReset, T: 12*3600 + 1800}, vfEv{K: vfEvFrame, T: 12*3600 + 1800})
		}
	}
	run := vfDrive(rc, nil)
	if run.panicked != "" {
		r.Failf("%s", run.panicked)
		return r
	}
	if c.Kind == 4 {
		// two different messages alternate, so each one differs from the line printed last: the limiter's rule
		// (suppress only a repeat of the last printed line) lets every one of them through
		a, b := strings.Count(buf.String(), "Recording not started"), strings.Count(buf.String(), "error with starting constant recorder")
		if a != c.Frames || b < c.Frames {
			r.Failf("two conditions recurring on %d consecutive frames, their messages alternating, produced %d / %d lines; none of them repeats the line printed last, so all must appear (%d / at least %d):\n%s", c.Frames, a, b, c.Frames, c.Frames, vfHead(buf.String(), 400))
		}
		r.NT = c.Frames >= 50
		return r
	}
	lines := strings.Count(buf.String(), want)
	if lines != 1 {
		r.Failf("a condition recurring on %d consecutive frames (well inside one minute) produced %d %q log lines, want exactly 1:\n%s", c.Frames, lines, want, vfHead(buf.String(), 600))
		return r
	}
	if total := strings.Count(buf.String(), "\n"); total > 3 {
		r.Failf("a single recurring condition (%q) produced %d log lines in all:\n%s", want, total, vfHead(buf.String(), 600))
		return r
	}
	r.NT = c.Frames >= 50
	return r
}

func TestVF_C20_Recorder(t *testing.T) {
	kit.Drive(t, "C20", "TestVF_C20_Recorder",
		"generated: a single condition recurring on 2-120 consecutive frames - a motion start refused (storage check failing, or window closed, with up to 3 camera resets in between), the continuous recorder unable to start, unable to stop, or every frame write of a long recording failing, or two of these at once with alternating messages - through a real MotionProcessor within far less than a minute of real time. Oracle: the recorder's interval is one minute and exactly one line for that condition is logged (and at most 3 lines in all); alternating messages of two conditions are all printed. Non-trivial: at least 50 refused frames.",
		vfGenC20Rec, vfRunC20Rec)
}

func vfHead(s string, n int) string {
	if len(s) > n {
		return s[:n] + "..."
	}
	return s
}

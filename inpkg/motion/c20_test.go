//go:build verif

package motion

import (
	"bytes"
	"log"
	"strings"
	"testing"
	"time"

	"pgregory.net/rapid"
	kit "verifkit"
)

// C20 (recorder part): the processor's limiter uses a one-minute interval, and a single condition
// recurring on every frame (start refused) produces one log line, not one per frame.

type vfC20RecCase struct {
	Frames int  `json:"frames"` // motion frames in a row with the storage check failing
	Window bool `json:"window"` // refuse through a closed window instead of the storage check
	Resets []int `json:"resets,omitempty"` // camera resets after these frames
}

func vfGenC20Rec(t *rapid.T) vfC20RecCase {
	c := vfC20RecCase{Frames: rapid.IntRange(2, 120).Draw(t, "frames"), Window: rapid.Bool().Draw(t, "window")}
	for i := rapid.IntRange(0, 3).Draw(t, "nresets"); i > 0; i-- {
		c.Resets = append(c.Resets, rapid.IntRange(0, c.Frames-1).Draw(t, "resetafter"))
	}
	return c
}

func vfRunC20Rec(c vfC20RecCase) *kit.Result {
	r := &kit.Result{}
	if c.Frames < 1 || c.Frames > 2000 {
		r.Failf("malformed case")
		return r
	}
	if minLogInterval != time.Minute {
		r.Failf("the recorder's log interval is %v, want one minute", minLogInterval)
		return r
	}
	var buf bytes.Buffer
	oldW, oldF := log.Writer(), log.Flags()
	log.SetOutput(&buf)
	log.SetFlags(0)
	defer func() { log.SetOutput(oldW); log.SetFlags(oldF) }()
	rc := vfRecCase{Cfg: vfRecCfg{FPS: 9, Preview: 1, Min: 1, Max: 2, Trigger: 1, W: 4, H: 4, Edge: 1, Gap: 1}}
	if c.Window {
		rc.Cfg.WinStart, rc.Cfg.WinEnd = 600, 660 // 10:00-11:00, clock at 12:30
	}
	rc.Ev = append(rc.Ev, vfEv{K: vfEvFrame, T: 12*3600 + 1800})
	resetAfter := map[int]bool{}
	for _, i := range c.Resets {
		resetAfter[i] = true
	}
	for i := 0; i < c.Frames; i++ {
		rc.Ev = append(rc.Ev, vfEv{K: vfEvFrame, M: true, T: 12*3600 + 1800})
		if !c.Window {
			rc.Faults.Check = append(rc.Faults.Check, i)
		}
		if resetAfter[i] {
			// a camera reset in between does not make the condition a new one
			rc.Ev = append(rc.Ev, vfEv{K: vfEvReset, T: 12*3600 + 1800}, vfEv{K: vfEvFrame, T: 12*3600 + 1800})
		}
	}
	run := vfDrive(rc, nil)
	if run.panicked != "" {
		r.Failf("%s", run.panicked)
		return r
	}
	lines := strings.Count(buf.String(), "Recording not started")
	if lines != 1 {
		r.Failf("%d consecutive refused starts (well inside one minute) produced %d 'Recording not started' log lines, want exactly 1:\n%s", c.Frames, lines, buf.String())
		return r
	}
	r.NT = c.Frames >= 50
	return r
}

func TestVF_C20_Recorder(t *testing.T) {
	kit.Drive(t, "C20", "TestVF_C20_Recorder",
		"generated: 2-120 motion frames whose start is refused (storage check failing, or window closed), with up to 3 camera resets in between, through a real MotionProcessor within far less than a minute of real time. Oracle: the recorder's interval is one minute and exactly one 'Recording not started' line is logged. Non-trivial: at least 50 refused frames.",
		vfGenC20Rec, vfRunC20Rec)
}

//go:build verif

package motion

import (
	"testing"

	config "github.com/TheCacophonyProject/go-config"
	"github.com/TheCacophonyProject/go-cptv/cptvframe"
	"github.com/TheCacophonyProject/thermal-recorder/recorder"
	"github.com/TheCacophonyProject/window"
	"pgregory.net/rapid"
	kit "verifkit"
)

// C07: fixed-threshold detection equals the threshold specification.

type vfC07Case struct {
	Cfg    vfDetCfg     `json:"cfg"`
	Base   uint16       `json:"base"`
	Frames []vfDetFrame `json:"frames"`
}

func vfGenC07(t *rapid.T) vfC07Case {
	c := vfC07Case{Cfg: vfGenDetCfg(t, false, true)}
	c.Base = vfGenBase(t, c.Cfg)
	n := rapid.IntRange(1, 40).Draw(t, "n")
	if c.Cfg.W > 100 {
		n = rapid.IntRange(1, 8).Draw(t, "nbig")
	}
	c.Frames = vfGenTimeline(t, n, false, true)
	// scenes: mostly small mutations of the previous frame; sometimes revert to an earlier look so
	// that the comparison with the frame `gap` earlier differs from the comparison with the previous one
	maxMut := 4
	if rapid.Bool().Draw(t, "dense") {
		maxMut = c.Cfg.Count + 2
		if maxMut > 40 {
			maxMut = 40
		}
	}
	vfGenScene(t, c.Cfg, c.Frames, c.Base, maxMut)
	if rapid.IntRange(0, 79).Draw(t, "wholeframe") == 0 {
		// a Boson-sized image in which every interior pixel changes at once: more than 65536 qualifying pixels,
		// with a count-thresh larger than what is left of that number after a 16-bit wrap
		c.Cfg.W, c.Cfg.H = 320, 256
		c.Cfg.Edge = rapid.IntRange(0, 1).Draw(t, "edgeW")
		interior := (c.Cfg.W - 2*c.Cfg.Edge) * (c.Cfg.H - 2*c.Cfg.Edge)
		c.Cfg.Count = rapid.IntRange(interior-65536+1, interior).Draw(t, "countW")
		c.Cfg.T, c.Cfg.D, c.Cfg.Gap = 1000, 50, 1
		c.Base = 3000
		lo, hi := uint16(3000), uint16(3400)
		c.Frames = vfGenTimeline(t, 4, false, false)
		c.Frames[0].Fill, c.Frames[1].Fill, c.Frames[2].Fill, c.Frames[3].Fill = &lo, &hi, &lo, &hi
		for i := range c.Frames {
			c.Frames[i].Mut = nil
		}
	}
	return c
}

func vfRunC07(c vfC07Case) *kit.Result {
	r := &kit.Result{}
	if msg := c.Cfg.valid(); msg != "" || c.Cfg.Dynamic || len(c.Frames) > 400 {
		r.Failf("malformed case: %s", msg)
		return r
	}
	for _, f := range c.Frames {
		if vfAffected(f) {
			r.Failf("malformed case: C07 quantifies over FFC-free streams")
			return r
		}
	}
	pix := vfMaterialise(c.Cfg, c.Frames, c.Base)
	resets := make([]bool, len(c.Frames))
	for i, f := range c.Frames {
		resets[i] = f.Reset
	}
	ref := vfRefDetect(c.Cfg, pix, resets, func(int) uint16 { return c.Cfg.T })
	got := vfDetRun(c.Cfg, c.Frames, pix, nil)
	for i := range got {
		if got[i] != ref.Motion[i] {
			r.Failf("frame %d: Detect()=%v, specification says %v (qualifying interior pixels %d, count-thresh %d, gap %d, one-diff %v, warmer-only %v, T=%d D=%d); detector %s reference %s",
				i, got[i], ref.Motion[i], ref.Count[i], c.Cfg.Count, c.Cfg.Gap, c.Cfg.OneDiff, c.Cfg.Warmer, c.Cfg.T, c.Cfg.D, vfBits(got), vfBits(ref.Motion))
			return r
		}
	}
	// the same stream through a MotionProcessor: MotionDetected callbacks must agree
	cam := vfCam{c.Cfg.W, c.Cfg.H, c.Cfg.fps()}
	tr := &vfTrace{motion: map[int]bool{}}
	w, _ := window.New("10:00", "10:00", 0, 0)
	rc := &recorder.RecorderConfig{MinSecs: 0, MaxSecs: 0, PreviewSecs: 0, Window: *w}
	mc := c.Cfg.motionConf()
	sink := vfNewSink(tr, 'm', nil, nil, nil, nil)
	mp := NewMotionProcessor(vfParse, &mc, rc, &config.Location{}, &vfListener{tr}, sink, cam, (*vfSink)(nil), vfNewSink(tr, 't', nil, nil, nil, nil))
	f := cptvframe.NewFrame(cam)
	for i := range c.Frames {
		tr.curEv = i
		if c.Frames[i].Reset {
			mp.Reset(cam)
		}
		vfToFrame(c.Cfg, pix[i], c.Frames[i], i, f)
		mp.ProcessFrame(f)
		if tr.motion[i] != ref.Motion[i] {
			r.Failf("frame %d: MotionDetected callback=%v through ProcessFrame, specification says %v", i, tr.motion[i], ref.Motion[i])
			return r
		}
	}
	any, none, boundary := false, false, false
	for i := range got {
		if ref.Motion[i] {
			any = true
		} else {
			none = true
		}
		if ref.Boundary[i] || ref.Count[i] == c.Cfg.Count || ref.Count[i] == c.Cfg.Count-1 {
			boundary = true
		}
	}
	r.NT = any && none && boundary
	if any {
		r.Class("has_motion")
	}
	if boundary {
		r.Class("boundary_value")
	}
	if c.Cfg.W > 100 {
		r.Class("160x120")
	}
	for _, f := range c.Frames {
		if f.Reset {
			r.Class("has_reset")
			break
		}
	}
	if !c.Cfg.OneDiff {
		r.Class("two_diff")
	}
	if c.Cfg.Gap > 1 {
		r.Class("gap>1")
	}
	return r
}

func TestVF_C07(t *testing.T) {
	kit.Drive(t, "C07", "TestVF_C07",
		"generated: resolution 3x3..12x10 (and a 160x120 class), edge 0-3, temp-thresh / delta-thresh from boundary-rich sets (delta-thresh 65534 / 65535 in one case in 10), count-thresh 1..interior size, gap 1-6, warmer-only, one-diff; FFC-free streams of 1-40 frames built by mutating the previous frame at a few interior/border pixels with values from {0,T-1,T,T+1,T+D-1,T+D,T+D+1,65535,...}, camera resets in between. Oracle: reference detector written from the statement, compared with Detect() per frame and with the MotionDetected callbacks of a MotionProcessor. Non-trivial: stream with both outcomes in which some frame has a qualifying-pixel count in {count-thresh-1, count-thresh} or a pixel difference in {D, D+1} or a value exactly at temp-thresh.",
		vfGenC07, vfRunC07)
}

//go:build verif

package motion

import (
	"fmt"
	"math"
	"testing"

	config "github.com/TheCacophonyProject/go-config"
	"github.com/TheCacophonyProject/go-cptv/cptvframe"
	"github.com/TheCacophonyProject/thermal-recorder/recorder"
	"github.com/TheCacophonyProject/window"
	"pgregory.net/rapid"
	kit "verifkit"
)

// C15: dynamic threshold and background estimate.

type vfC15Case struct {
	Cfg     vfDetCfg     `json:"cfg"`
	Base    uint16       `json:"base"`
	Frames  []vfDetFrame `json:"frames"`
	Preview int          `json:"preview_secs"` // preview-secs for the processor run (fps 1 => preview frames = preview secs)
	Trigger int          `json:"trigger"`
	// ordinals of the motion sink's StartRecording / StopRecording calls that fail in the processor run
	StartFail []int `json:"start_fail,omitempty"`
	StopFail  []int `json:"stop_fail,omitempty"`
}

func vfGenC15(t *rapid.T) vfC15Case {
	c := vfC15Case{Cfg: vfGenDetCfg(t, true, false)}
	if c.Cfg.Edge > 2 {
		c.Cfg.Edge = 2
	}
	c.Preview = rapid.IntRange(0, 6).Draw(t, "preview")
	c.Cfg.PreviewFrames = c.Preview
	c.Trigger = rapid.IntRange(1, 2).Draw(t, "trigger")
	// scene mean below / inside / above the configured range
	c.Base = rapid.SampledFrom([]uint16{100, 800, 950, 1050, 2000, 3000, 3500, 4000, 4500, 5461, 30000, 61000}).Draw(t, "base15")
	n := rapid.IntRange(2, 40).Draw(t, "n")
	if rapid.IntRange(0, 31).Draw(t, "realsize") == 0 {
		// the resolutions of the real cameras with scenes from cool to nearly saturated: sums over the whole
		// image reach 2^32 and beyond
		wh := rapid.SampledFrom([][2]int{{160, 120}, {320, 256}, {640, 512}}).Draw(t, "wh")
		c.Cfg.W, c.Cfg.H = wh[0], wh[1]
		c.Base = rapid.SampledFrom([]uint16{3000, 13200, 28000, 53300, 64000}).Draw(t, "basebig")
		n = rapid.IntRange(2, 6).Draw(t, "nbig")
		if c.Cfg.Count > 50 {
			c.Cfg.Count = 50
		}
	}
	c.Frames = vfGenTimeline(t, n, rapid.IntRange(0, 2).Draw(t, "ffc") > 0, true)
	// slowly drifting scene: whole-frame level changes and single cooling / warming pixels
	level := int(c.Base)
	for i := range c.Frames {
		switch rapid.IntRange(0, 5).Draw(t, "drift") {
		case 0:
			level += rapid.IntRange(-30, 30).Draw(t, "dl")
		case 1:
			level += rapid.SampledFrom([]int{-1, 1, -200, 200, -1500, 1500}).Draw(t, "jump")
		}
		if level < 1 {
			level = 1
		}
		if level > 65000 {
			level = 65000
		}
		if rapid.IntRange(0, 2).Draw(t, "fill") == 0 {
			v := uint16(level)
			c.Frames[i].Fill = &v
		}
		k := rapid.IntRange(0, 4).Draw(t, "k")
		for j := 0; j < k; j++ {
			p := rapid.IntRange(0, c.Cfg.W*c.Cfg.H-1).Draw(t, "p")
			v := level + rapid.SampledFrom([]int{-300, -50, -1, 1, 50, 300, 2000}).Draw(t, "dv")
			if v < 0 {
				v = 0
			}
			if v > 65535 {
				v = 65535
			}
			c.Frames[i].Mut = append(c.Frames[i].Mut, vfMut{P: p, V: uint16(v)})
		}
	}
	if rapid.IntRange(0, 2).Draw(t, "faults") == 0 {
		c.StartFail = vfGenOrdinals(t, "startfail", 3)
		c.StopFail = vfGenOrdinals(t, "stopfail", 3)
		if rapid.Bool().Draw(t, "allstopsfail") {
			c.StopFail = []int{0, 1, 2, 3, 4, 5, 6, 7, 8, 9, 10, 11, 12, 13, 14, 15}
		}
	}
	return c
}

// vfC15State tracks what the invariants need between frames.
type vfC15State struct {
	c          vfDetCfg
	seen       int  // unaffected frames since start-up / reset
	needSeed   bool // next unaffected frame re-seeds the background
	prevBg     []uint16
	prevThr    uint16
	recomputes int
	clampHit   int
	reseeds    int
}

func (s *vfC15State) expected(bg []uint16) (float64, bool) {
	sum, cnt := 0.0, 0
	for p, v := range bg {
		if s.c.interior(p) {
			sum += float64(v)
			cnt++
		}
	}
	m := sum / float64(cnt)
	e := m
	if s.c.TMin != 0 {
		e = math.Max(e, float64(s.c.TMin))
	}
	if s.c.TMax != 0 {
		e = math.Min(e, float64(s.c.TMax))
	}
	return e, e != m
}

func vfFlat(f *cptvframe.Frame) []uint16 {
	var out []uint16
	for _, row := range f.Pix {
		out = append(out, row...)
	}
	return out
}

// check runs the invariants after the detector processed frame n (description fr, pixels pix).
func (s *vfC15State) check(n int, fr vfDetFrame, pix []uint16, bg []uint16, thr uint16) string {
	c := s.c
	if fr.Reset {
		s.seen = 0
		s.needSeed = true
	}
	if vfAffected(fr) {
		// background and threshold are not updated on FFC-affected frames; the next clear frame re-seeds
		s.needSeed = true
		s.prevBg, s.prevThr = bg, thr
		return ""
	}
	s.seen++
	for p := range pix {
		x, y := p%c.W, p/c.W
		if c.interior(p) {
			if bg[p] > pix[p] {
				return fmt.Sprintf("frame %d: background %d at interior pixel (%d,%d) is warmer than the current frame's %d", n, bg[p], x, y, pix[p])
			}
			if s.needSeed && bg[p] != pix[p] {
				return fmt.Sprintf("frame %d is the first clear frame after start-up / reset / FFC but the background at (%d,%d) is %d, not the frame's %d (must be re-seeded)", n, x, y, bg[p], pix[p])
			}
		} else {
			nx, ny := x, y
			if nx < c.Edge {
				nx = c.Edge
			}
			if nx > c.W-c.Edge-1 {
				nx = c.W - c.Edge - 1
			}
			if ny < c.Edge {
				ny = c.Edge
			}
			if ny > c.H-c.Edge-1 {
				ny = c.H - c.Edge - 1
			}
			if bg[p] != bg[ny*c.W+nx] {
				return fmt.Sprintf("frame %d: background border pixel (%d,%d)=%d does not replicate its nearest interior pixel (%d,%d)=%d", n, x, y, bg[p], nx, ny, bg[ny*c.W+nx])
			}
		}
	}
	if s.needSeed {
		s.reseeds++
	}
	s.needSeed = false
	changed := s.prevBg == nil
	if !changed {
		for p := range bg {
			if c.interior(p) && bg[p] != s.prevBg[p] {
				changed = true
				break
			}
		}
	}
	e, clamped := s.expected(bg)
	// an integer threshold "equal to the mean" may be the mean truncated, rounded or rounded up, and the code's
	// own summation may be off by a few ulps: floor(e-1e-6) <= thr < e+1-1e-6. (For an integer mean this admits
	// only the mean itself, or one less if the float sum fell just short of it.)
	near := float64(thr) >= math.Floor(e-1e-6) && float64(thr) < e+1-1e-6
	if changed && s.seen > c.PreviewFrames {
		if !near {
			return fmt.Sprintf("frame %d: background changed after the warm-up (%d > %d background frames) but the threshold is %d; mean of the interior background limited to [%d,%d] is %.3f", n, s.seen, c.PreviewFrames, thr, c.TMin, c.TMax, e)
		}
		s.recomputes++
		if clamped {
			s.clampHit++
		}
	} else if thr != s.prevThr && !near {
		return fmt.Sprintf("frame %d: threshold recomputed to %d (was %d) but the mean of the interior background limited to [%d,%d] is %.3f", n, thr, s.prevThr, c.TMin, c.TMax, e)
	}
	s.prevBg, s.prevThr = bg, thr
	return ""
}

func vfRunC15(c vfC15Case) *kit.Result {
	r := &kit.Result{}
	if msg := c.Cfg.valid(); msg != "" || !c.Cfg.Dynamic || len(c.Frames) > 300 || c.Preview < 0 || c.Preview != c.Cfg.PreviewFrames || c.Trigger < 1 ||
		(c.Cfg.TMin != 0 && c.Cfg.TMax != 0 && c.Cfg.TMax < c.Cfg.TMin) {
		r.Failf("malformed case: %s", msg)
		return r
	}
	pix := vfMaterialise(c.Cfg, c.Frames, c.Base)
	st := &vfC15State{c: c.Cfg, needSeed: true, prevThr: c.Cfg.T}
	msg := ""
	vfDetRun(c.Cfg, c.Frames, pix, func(n int, d *motionDetector, f *cptvframe.Frame) {
		if msg == "" {
			msg = st.check(n, c.Frames[n], pix[n], vfFlat(d.background), d.tempThresh)
		}
	})
	if msg != "" {
		r.Failf("%s", msg)
		return r
	}
	// the same stream through a MotionProcessor: same invariants, and what a recording is started with
	cam := vfCam{c.Cfg.W, c.Cfg.H, 1}
	tr := &vfTrace{motion: map[int]bool{}}
	w, _ := window.New("10:00", "10:00", 0, 0)
	rc := &recorder.RecorderConfig{MinSecs: 2, MaxSecs: 6, PreviewSecs: c.Preview, Window: *w}
	mc := c.Cfg.motionConf()
	mc.TriggerFrames = c.Trigger
	sink := vfNewSink(tr, 'm', nil, c.StartFail, nil, c.StopFail)
	mp := NewMotionProcessor(vfParse, &mc, rc, &config.Location{}, &vfListener{tr}, sink, cam, (*vfSink)(nil), vfNewSink(tr, 't', nil, nil, nil, nil))
	starts := 0
	sink.bgHook = func(bg *cptvframe.Frame, thr uint16) {
		starts++
		if msg != "" {
			return
		}
		d := mp.motionDetector
		if thr != d.tempThresh {
			msg = fmt.Sprintf("recording started at frame %d with threshold %d, the threshold in force is %d", tr.curEv, thr, d.tempThresh)
			return
		}
		if bg == nil || fmt.Sprint(vfFlat(bg)) != fmt.Sprint(vfFlat(d.background)) {
			msg = fmt.Sprintf("recording started at frame %d with a background that is not the one in force", tr.curEv)
			return
		}
		if !bg.Status.BackgroundFrame {
			msg = fmt.Sprintf("recording started at frame %d with a frame not flagged as background", tr.curEv)
		}
	}
	st2 := &vfC15State{c: c.Cfg, needSeed: true, prevThr: c.Cfg.T}
	f := cptvframe.NewFrame(cam)
	for i := range c.Frames {
		tr.curEv = i
		if c.Frames[i].Reset {
			mp.Reset(cam)
		}
		vfToFrame(c.Cfg, pix[i], c.Frames[i], i, f)
		mp.ProcessFrame(f)
		if msg == "" {
			msg = st2.check(i, c.Frames[i], pix[i], vfFlat(mp.motionDetector.background), mp.motionDetector.tempThresh)
			if msg != "" {
				msg = "through MotionProcessor: " + msg
			}
		}
		if msg != "" {
			r.Failf("%s", msg)
			return r
		}
	}
	if st.clampHit > 0 {
		r.Class("clamp_active")
	}
	if st.reseeds > 1 {
		r.Class("reseed")
	}
	if starts > 0 {
		r.Class("recording_started")
	}
	if c.Cfg.PreviewFrames == 0 {
		r.Class("previewframes0")
	}
	r.Count("recomputes", st.recomputes)
	r.Count("recomputes_clamped", st.clampHit)
	r.NT = (st.recomputes >= 3 && st.clampHit > 0) || st.reseeds > 1
	return r
}

func TestVF_C15(t *testing.T) {
	kit.Drive(t, "C15", "TestVF_C15",
		"generated: dynamic-threshold streams with slowly drifting scenes, cooling/warming pixels, FFC periods and resets, optionally with the motion sink's start/stop failing; temp-thresh-min / max unset or set in all four combinations with the scene mean below, inside and above the range; preview frames 0-6, edge 0-2; one case in 32 at 160x120, 320x256 or 640x512 with levels up to 64000. Oracle (after every clear frame, read in-package from the detector alone and inside a MotionProcessor): background <= frame on every interior pixel; every border pixel equals its nearest interior pixel; background interior == frame on the first clear frame after start-up, a reset or an FFC period; if the background changed and more than preview*fps background frames were seen the threshold t satisfies floor(m-1e-6) <= t < m+1-1e-6 for m = clamp(mean of interior background, [min,max]) (truncation, rounding or rounding up of the mean; nothing else), otherwise it is unchanged or equals that value; every StartRecording receives the background and threshold in force. Non-trivial: >=3 recomputations with the clamp active at least once, or a re-seed after an FFC/reset.",
		vfGenC15, vfRunC15)
}

//go:build verif

package motion

import (
	"sync/atomic"
	"time"
	"fmt"
	"testing"

	"github.com/TheCacophonyProject/go-cptv/cptvframe"
	"pgregory.net/rapid"
	kit "verifkit"
)

// vfCam is a cptvframe.CameraSpec with arbitrary geometry.
type vfCam struct{ X, Y, F int }

func (c vfCam) ResX() int { return c.X }
func (c vfCam) ResY() int { return c.Y }
func (c vfCam) FPS() int  { return c.F }

// ---------------------------------------------------------------------------------------------
// C19: frame ring buffer against a list model.

const (
	vfOpWriteMove = 0
	vfOpMark      = 1
	vfOpReset     = 2
	vfOpQuery     = 3  // (sparse mode) compare history / oldest / recent with the model
	vfOpBurst     = 10 // 10+k: k times write+move without looking in between
)

type vfC19Case struct {
	Cap int   `json:"cap"`
	Ops []int `json:"ops"` // 0 = write a frame into current and move, 1 = set-as-oldest, 2 = reset, 3 = query, 10+k = k moves
	// Sparse: the ring is looked at only at the query operations (and at the end) instead of after every
	// operation - looking is not free of side effects in an implementation that caches
	Sparse bool `json:"sparse,omitempty"`
}

const vfC19Rule = "generated: capacity 1-9 (sometimes 47) and up to 60 operations over {write+move, set-as-oldest, reset, bursts of k moves with k around multiples of the capacity, 2^8 and 2^16}; either after every operation, or (every second case) only at explicit query operations, a fresh frame is written into the current slot and history/oldest/recent are compared with a list model. Non-trivial: the ring wrapped at least once while a set-as-oldest mark placed after the epoch start was buffered and that mark later expired (was overwritten). Distinct by hash of (capacity, operations)."

func vfGenC19(t *rapid.T) vfC19Case {
	c := vfC19Case{Cap: rapid.IntRange(1, 9).Draw(t, "cap")}
	n := rapid.IntRange(0, 60).Draw(t, "n")
	op := rapid.SampledFrom([]int{0, 0, 0, 0, 0, 0, 0, 0, 0, 0, 0, 0, 1, 1, 1, 2})
	c.Ops = make([]int, n)
	for i := range c.Ops {
		c.Ops[i] = op.Draw(t, "op")
	}
	c.Sparse = rapid.Bool().Draw(t, "sparse")
	if c.Sparse {
		if rapid.IntRange(0, 9).Draw(t, "bigcap") == 0 {
			c.Cap = 47
		}
		// queries at a few places only, and bursts of moves in between: whole laps, almost whole laps, and
		// (rarely) as many moves as a narrow counter can hold
		for i := range c.Ops {
			switch rapid.IntRange(0, 9).Draw(t, "sp") {
			case 0, 1:
				c.Ops[i] = vfOpQuery
			case 2:
				k := c.Cap*rapid.IntRange(1, 3).Draw(t, "laps") + rapid.IntRange(-1, 1).Draw(t, "lapoff")
				if k < 1 {
					k = 1
				}
				c.Ops[i] = vfOpBurst + k
			}
		}
		if rapid.IntRange(0, 7).Draw(t, "long") == 0 && n > 0 {
			base := rapid.SampledFrom([]int{256, 256, 65536, 65536, 70000}).Draw(t, "longbase")
			at := rapid.IntRange(0, n-1).Draw(t, "longat")
			c.Ops[at] = vfOpBurst + base + rapid.IntRange(-c.Cap-1, c.Cap+1).Draw(t, "longoff")
		}
	}
	return c
}

// vfRingModel is the list model of the statement: all frames moved past since
// creation/reset, and the position of the last mark.
type vfRingModel struct {
	cap     int
	written []int // tags of frames written and moved past since creation / reset
	mark    int   // position (index into written, or len(written) for the pending frame) of the last mark
}

func (m *vfRingModel) lo() int {
	n := len(m.written)
	lo := n - m.cap + 1
	if lo < 0 {
		lo = 0
	}
	if m.mark > lo {
		lo = m.mark
	}
	return lo
}

func (m *vfRingModel) markBuffered() bool {
	return m.mark >= len(m.written)-m.cap+1
}

func vfTag(f *cptvframe.Frame) int { return int(f.Pix[0][0]) }

func vfRunC19(c vfC19Case) *kit.Result {
	r := &kit.Result{}
	if c.Cap < 1 || c.Cap > 64 || len(c.Ops) > 200 {
		r.Failf("malformed case")
		return r
	}
	for _, op := range c.Ops {
		if op < 0 || (op > vfOpQuery && op < vfOpBurst) || op > vfOpBurst+200000 {
			r.Failf("malformed case")
			return r
		}
	}
	cam := vfCam{2, 2, 9}
	fl := NewFrameLoop(c.Cap, cam)
	m := &vfRingModel{cap: c.Cap}
	next := 1
	wrapped, markSet, markExpired, resets := false, false, false, 0

	pendValid := false
	query := func(step int) bool {
		// The frame being received: written into the current slot, not yet moved past.
		pend := next%60000 + 1
		next++
		cur := fl.Current()
		cur.Pix[0][0] = uint16(pend)
		cur.Pix[1][1] = uint16(pend)
		cur.Status.TimeOn = time.Duration((pend*7919)%1000) * time.Millisecond // camera uptimes in no particular order
		pendValid = true
		n := len(m.written)
		at := func(pos int) int {
			if pos == n {
				return pend
			}
			return m.written[pos]
		}
		// history
		lo := m.lo()
		hist := fl.GetHistory()
		want := make([]int, 0, n-lo+1)
		for p := lo; p <= n; p++ {
			want = append(want, at(p))
		}
		got := make([]int, len(hist))
		for i, f := range hist {
			got[i] = vfTag(f)
		}
		if fmt.Sprint(got) != fmt.Sprint(want) {
			r.Failf("step %d: history = %v, want %v (oldest first, ending with the current frame)", step, got, want)
			return false
		}
		// oldest
		wantOldest := 0
		if m.markBuffered() {
			wantOldest = at(m.mark)
		} else {
			wantOldest = at(n - m.cap + 1)
		}
		if g := vfTag(fl.Oldest()); g != wantOldest {
			r.Failf("step %d: Oldest() = %d, want %d", step, g, wantOldest)
			return false
		}
		// recent
		if c.Cap >= 2 && n >= 1 {
			rec := fl.CopyRecent()
			if g := vfTag(rec); g != at(n-1) {
				r.Failf("step %d: CopyRecent() = %d, want %d (the frame before the current one)", step, g, at(n-1))
				return false
			}
			rec.Pix[0][0] = 65535
			rec.Pix[1][1] = 65535
			hist = fl.GetHistory()
			for i, f := range hist {
				if vfTag(f) != want[i] || int(f.Pix[1][1]) != want[i] {
					r.Failf("step %d: mutating the CopyRecent() result changed the ring (history slot %d)", step, i)
					return false
				}
			}
		}
		return true
	}

	if !query(-1) {
		return r
	}
	writeMove := func() {
		if !pendValid {
			// nothing was received into the current slot since the last move: receive a frame now
			pend := next%60000 + 1
			next++
			cur := fl.Current()
			cur.Pix[0][0] = uint16(pend)
			cur.Pix[1][1] = uint16(pend)
			cur.Status.TimeOn = time.Duration((pend*7919)%1000) * time.Millisecond
		cur.Status.TimeOn = time.Duration((pend*7919)%1000) * time.Millisecond // camera uptimes in no particular order
		}
		// the pending frame (written by the last query, or just now) is the one moved past
		m.written = append(m.written, vfTag(fl.Current()))
		fl.Move()
		pendValid = false
		if len(m.written) >= c.Cap {
			wrapped = true
		}
		if markSet && !m.markBuffered() {
			markExpired = true
		}
		if len(m.written) > 4*c.Cap+8 {
			// only the tail matters to the model: keep positions relative
			drop := len(m.written) - (2*c.Cap + 4)
			m.written = append(m.written[:0], m.written[drop:]...)
			m.mark -= drop
			if m.mark < 0 {
				m.mark = -1 // expired long ago
			}
		}
	}
	bursts := 0
	for i, op := range c.Ops {
		switch {
		case op == vfOpWriteMove:
			writeMove()
		case op >= vfOpBurst:
			for k := op - vfOpBurst; k > 0; k-- {
				writeMove()
			}
			bursts++
		}
		switch op {
		case vfOpMark:
			fl.SetAsOldest()
			m.mark = len(m.written)
			if m.mark > 0 {
				markSet = true
			}
		case vfOpReset:
			fl.Reset()
			m.written = m.written[:0]
			m.mark = 0
			resets++
			markSet = false
			pendValid = false
		}
		if c.Sparse && op != vfOpQuery {
			continue
		}
		if !query(i) {
			return r
		}
	}
	if c.Sparse && !query(len(c.Ops)) {
		return r
	}
	if c.Sparse {
		r.Class("sparse_queries")
	}
	if bursts > 0 {
		r.Class("bursts")
	}
	r.NT = wrapped && markExpired
	r.Class(fmt.Sprintf("cap=%d", c.Cap))
	if wrapped {
		r.Class("wrapped")
	}
	if markExpired {
		r.Class("mark_expired")
	}
	if resets > 0 {
		r.Class("reset")
	}
	return r
}

func TestVF_C19(t *testing.T) {
	kit.Drive(t, "C19", "TestVF_C19", vfC19Rule, vfGenC19, vfRunC19)
}

// TestVF_C19_Exhaustive enumerates every operation sequence of length vfC19ExhLen
// (all prefixes are checked on the way) for capacities 1..4.
func TestVF_C19_Exhaustive(t *testing.T) {
	const L = 11
	s := kit.Begin("C19", "TestVF_C19_Exhaustive", "exhaustive: every sequence of "+fmt.Sprint(L)+" operations over {write+move, set-as-oldest, reset} for capacities 1..4, all prefixes checked; non-trivial as in the generated check")
	defer s.End()
	s.SetExhaustive()
	s.ReplayTest = "TestVF_C19"
	ops := make([]int, L)
	for cap := 1; cap <= 4; cap++ {
		total := 1
		for i := 0; i < L; i++ {
			total *= 3
		}
		evals, nt := 0, 0
		for code := 0; code < total; code++ {
			x := code
			for i := 0; i < L; i++ {
				ops[i] = x % 3
				x /= 3
			}
			c := vfC19Case{Cap: cap, Ops: ops}
			r := vfRunC19(c)
			evals++
			if r.NT {
				nt++
				if nt == 1 {
					s.Sample(vfC19Case{Cap: cap, Ops: append([]int{}, ops...)})
				}
			}
			if r.Err != "" {
				cc := vfC19Case{Cap: cap, Ops: append([]int{}, ops...)}
				// shrink: shortest failing prefix
				for l := 0; l <= L; l++ {
					p := vfC19Case{Cap: cap, Ops: cc.Ops[:l]}
					if pr := vfRunC19(p); pr.Err != "" {
						cc, r = p, pr
						break
					}
				}
				s.AddCounts(evals, nt)
				s.Fail(cc, r.Err)
				t.Fatalf("C19 violated: %s", r.Err)
			}
		}
		s.AddCounts(evals, nt)
		s.ClassAdd(fmt.Sprintf("cap=%d", cap), evals)
	}
}

func FuzzVF_C19(f *testing.F) {
	kit.DriveFuzz(f, "C19", "FuzzVF_C19", "native coverage-guided fuzzing (go test -fuzz) of the byte stream behind the generator of TestVF_C19, same oracle", vfGenC19, vfRunC19)
}


// TestVF_C19_Concurrent: a snapshot goroutine calls CopyRecent while the producer keeps writing the current slot
// and moving on, on a two-slot ring of large frames (a copy takes a millisecond or so). Every frame is filled
// with a single value; what CopyRecent returns must be one whole frame.
func TestVF_C19_Concurrent(t *testing.T) {
	s := kit.Begin("C19", "TestVF_C19_Concurrent", "a producer fills the current slot of a 2-slot ring of 1024x1024 frames with one value per frame and moves on, 300 times, while a second goroutine calls CopyRecent in a loop; every copy must hold a single value throughout (the frame before the current one at some instant of the call). Every copy taken while the producer was running counts as non-trivial.")
	defer s.End()
	cam := vfCam{1024, 1024, 9}
	fl := NewFrameLoop(2, cam)
	var stop int32
	type res struct {
		copies int
		msg    string
	}
	done := make(chan res, 1)
	go func() {
		out := res{}
		for atomic.LoadInt32(&stop) == 0 {
			f := fl.CopyRecent()
			out.copies++
			v := f.Pix[0][0]
			for y := 0; y < len(f.Pix) && out.msg == ""; y += 7 {
				for x := 0; x < len(f.Pix[y]); x += 5 {
					if f.Pix[y][x] != v {
						out.msg = fmt.Sprintf("CopyRecent returned a mixture of frames: pixel (0,0)=%d but (%d,%d)=%d", v, x, y, f.Pix[y][x])
						break
					}
				}
			}
			if out.msg != "" {
				break
			}
		}
		done <- out
	}()
	for k := 1; k <= 300; k++ {
		cur := fl.Current()
		for y := len(cur.Pix) - 1; y >= 0; y-- {
			row := cur.Pix[y]
			for x := range row {
				row[x] = uint16(k)
			}
		}
		fl.Move()
	}
	atomic.StoreInt32(&stop, 1)
	out := <-done
	r := &kit.Result{NT: true}
	s.AddCounts(out.copies, out.copies)
	if out.msg != "" {
		r.Err = out.msg
		s.Record(map[string]int{"copies": out.copies}, r)
		s.Fail(map[string]int{"copies": out.copies}, out.msg)
		t.Fatalf("C19 violated: %s", out.msg)
	}
	s.Record(map[string]int{"copies": out.copies}, r)
}

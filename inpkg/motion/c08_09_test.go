//go:build verif

package motion

import (
	"encoding/binary"
	"fmt"
	"testing"

	config "github.com/TheCacophonyProject/go-config"
	"github.com/TheCacophonyProject/go-cptv/cptvframe"
	"github.com/TheCacophonyProject/thermal-recorder/recorder"
	"github.com/TheCacophonyProject/window"
	"pgregory.net/rapid"
	kit "verifkit"
)

// ---------------------------------------------------------------------------------------------
// C08: border pixels and sub-threshold pixels never influence anything (metamorphic).

type vfC08Case struct {
	Cfg    vfDetCfg     `json:"cfg"`
	Base   uint16       `json:"base"`
	Frames []vfDetFrame `json:"frames"`
	// variant B: per frame, optional fill of the whole border plus individual border mutations
	BorderFill []*uint16 `json:"border_fill"`
	BorderMut  [][]vfMut `json:"border_mut"`
	// variant C (fixed threshold): per frame, mutations of interior pixels that are <= T to other values <= T
	ColdMut [][]vfMut `json:"cold_mut"`
	Rec     struct{ FPS, Preview, Min, Max, Trigger int }
}

func vfGenC08(t *rapid.T) vfC08Case {
	dyn := rapid.Bool().Draw(t, "dynamic")
	c := vfC08Case{Cfg: vfGenDetCfg(t, dyn, false)}
	if c.Cfg.Edge == 0 && rapid.IntRange(0, 3).Draw(t, "forceedge") > 0 && min(c.Cfg.W, c.Cfg.H) >= 3 {
		c.Cfg.Edge = 1
		in := (c.Cfg.W - 2) * (c.Cfg.H - 2)
		if c.Cfg.Count > in {
			c.Cfg.Count = in
		}
	}
	if !dyn && c.Cfg.T < 1000 {
		c.Cfg.T = rapid.SampledFrom([]uint16{1000, 2900}).Draw(t, "T08") // room for cold values
	}
	c.Base = vfGenBase(t, c.Cfg)
	n := rapid.IntRange(2, 30).Draw(t, "n")
	c.Frames = vfGenTimeline(t, n, rapid.Bool().Draw(t, "ffc"), true)
	vfGenScene(t, c.Cfg, c.Frames, c.Base, 4)
	c.Rec.FPS = rapid.IntRange(1, 3).Draw(t, "fps")
	c.Rec.Preview = rapid.IntRange(0, 2).Draw(t, "preview")
	c.Rec.Min = rapid.IntRange(0, 2).Draw(t, "min")
	c.Rec.Max = c.Rec.Min + rapid.IntRange(0, 2).Draw(t, "maxx")
	c.Rec.Trigger = rapid.IntRange(1, 2).Draw(t, "trigger")
	pix := vfMaterialise(c.Cfg, c.Frames, c.Base)
	var border, nearBorder []int
	for p := 0; p < c.Cfg.W*c.Cfg.H; p++ {
		if !c.Cfg.interior(p) {
			border = append(border, p)
			x, y := p%c.Cfg.W, p/c.Cfg.W
			e := c.Cfg.Edge
			if x >= e-1 && x <= c.Cfg.W-e && y >= e-1 && y <= c.Cfg.H-e {
				nearBorder = append(nearBorder, p)
			}
		}
	}
	c.BorderFill = make([]*uint16, n)
	c.BorderMut = make([][]vfMut, n)
	c.ColdMut = make([][]vfMut, n)
	for i := 0; i < n; i++ {
		if len(border) > 0 {
			if rapid.IntRange(0, 2).Draw(t, "bfill") == 0 {
				v := rapid.SampledFrom([]uint16{0, 65535, c.Cfg.T, c.Cfg.T + c.Cfg.D + 1, 12345}).Draw(t, "bfillv")
				c.BorderFill[i] = &v
			}
			k := rapid.IntRange(0, 4).Draw(t, "nb")
			for j := 0; j < k; j++ {
				set := border
				if len(nearBorder) > 0 && rapid.Bool().Draw(t, "near") {
					set = nearBorder
				}
				c.BorderMut[i] = append(c.BorderMut[i], vfMut{P: rapid.SampledFrom(set).Draw(t, "bp"), V: vfGenValue(t, c.Cfg, c.Base)})
			}
		}
		if !dyn {
			var cold []int
			for p, v := range pix[i] {
				if c.Cfg.interior(p) && v <= c.Cfg.T {
					cold = append(cold, p)
				}
			}
			if len(cold) > 0 {
				k := rapid.IntRange(0, 4).Draw(t, "nc")
				for j := 0; j < k; j++ {
					c.ColdMut[i] = append(c.ColdMut[i], vfMut{P: rapid.SampledFrom(cold).Draw(t, "cp"),
						V: uint16(rapid.SampledFrom([]int{0, 1, int(c.Cfg.T), int(c.Cfg.T) - 1, int(c.Cfg.T) / 2}).Draw(t, "cv"))})
				}
			}
		}
	}
	return c
}

type vfDetObs struct {
	detect []bool
	bg     [][]uint16
	thr    []uint16
}

func vfObserve(c vfDetCfg, fr []vfDetFrame, pix [][]uint16) vfDetObs {
	var o vfDetObs
	o.detect = vfDetRun(c, fr, pix, func(n int, d *motionDetector, f *cptvframe.Frame) {
		flat := make([]uint16, 0, c.W*c.H)
		for _, row := range d.background.Pix {
			flat = append(flat, row...)
		}
		o.bg = append(o.bg, flat)
		o.thr = append(o.thr, d.tempThresh)
	})
	return o
}

// vfRecordings runs the frames through a MotionProcessor and returns the motion sink's call string.
func vfRecordings(c vfDetCfg, rec struct{ FPS, Preview, Min, Max, Trigger int }, fr []vfDetFrame, pix [][]uint16, viaProcess bool) (string, int, string) {
	cam := vfCam{c.W, c.H, rec.FPS}
	tr := &vfTrace{motion: map[int]bool{}}
	w, _ := window.New("10:00", "10:00", 0, 0)
	rc := &recorder.RecorderConfig{MinSecs: rec.Min, MaxSecs: rec.Max, PreviewSecs: rec.Preview, Window: *w}
	mc := c.motionConf()
	mc.TriggerFrames = rec.Trigger
	sink := vfNewSink(tr, 'm', nil, nil, nil, nil)
	mp := NewMotionProcessor(vfParse, &mc, rc, &config.Location{}, &vfListener{tr}, sink, cam, (*vfSink)(nil), vfNewSink(tr, 't', nil, nil, nil, nil))
	f := cptvframe.NewFrame(cam)
	raw := make([]byte, vfRawHdr+2*c.W*c.H)
	rejected := ""
	for i := range fr {
		tr.curEv = i
		if fr[i].Reset {
			mp.Reset(cam)
		}
		if viaProcess {
			// the live path: raw bytes through the parser, which is told the edge width by the processor
			raw[0] = 0
			binary.LittleEndian.PutUint32(raw[1:], uint32(i))
			binary.LittleEndian.PutUint32(raw[5:], fr[i].TimeOn)
			binary.LittleEndian.PutUint32(raw[9:], fr[i].LastFFC)
			for p, v := range pix[i] {
				binary.LittleEndian.PutUint16(raw[vfRawHdr+2*p:], v)
			}
			if err := mp.Process(raw); err != nil {
				rejected += fmt.Sprintf(" rejected@%d", i)
			}
			continue
		}
		vfToFrame(c, pix[i], fr[i], i, f)
		mp.ProcessFrame(f)
	}
	recs, perr := vfBrackets(tr, 'm')
	return vfSinkString(tr, 'm') + rejected, len(recs), perr
}

func vfRunC08(c vfC08Case) *kit.Result {
	r := &kit.Result{}
	n := len(c.Frames)
	if msg := c.Cfg.valid(); msg != "" || n > 200 || len(c.BorderFill) != n || len(c.BorderMut) != n || len(c.ColdMut) != n ||
		c.Rec.FPS < 1 || c.Rec.Max < c.Rec.Min || c.Rec.Min < 0 || c.Rec.Preview < 0 || c.Rec.Trigger < 1 {
		r.Failf("malformed case: %s", msg)
		return r
	}
	A := vfMaterialise(c.Cfg, c.Frames, c.Base)
	// variant B: only border pixels differ
	B := make([][]uint16, n)
	changedBorder, changedNear := 0, 0
	for i := range A {
		B[i] = append([]uint16{}, A[i]...)
		if c.BorderFill[i] != nil {
			for p := range B[i] {
				if !c.Cfg.interior(p) {
					B[i][p] = *c.BorderFill[i]
				}
			}
		}
		for _, m := range c.BorderMut[i] {
			if m.P >= 0 && m.P < len(B[i]) && !c.Cfg.interior(m.P) {
				B[i][m.P] = m.V
			}
		}
		e := c.Cfg.Edge
		for p := range B[i] {
			if B[i][p] != A[i][p] {
				changedBorder++
				x, y := p%c.Cfg.W, p/c.Cfg.W
				if x >= e-1 && x <= c.Cfg.W-e && y >= e-1 && y <= c.Cfg.H-e {
					changedNear++
				}
			}
		}
	}
	oa := vfObserve(c.Cfg, c.Frames, A)
	ob := vfObserve(c.Cfg, c.Frames, B)
	cmp := func(name string, o vfDetObs) bool {
		for i := range oa.detect {
			if oa.detect[i] != o.detect[i] {
				r.Failf("%s: Detect() differs at frame %d: %s vs %s", name, i, vfBits(oa.detect), vfBits(o.detect))
				return false
			}
			if c.Cfg.Dynamic {
				if oa.thr[i] != o.thr[i] {
					r.Failf("%s: dynamic threshold differs after frame %d: %d vs %d", name, i, oa.thr[i], o.thr[i])
					return false
				}
				for p := range oa.bg[i] {
					if oa.bg[i][p] != o.bg[i][p] {
						r.Failf("%s: background pixel %d (interior=%v) differs after frame %d: %d vs %d", name, p, c.Cfg.interior(p), i, oa.bg[i][p], o.bg[i][p])
						return false
					}
				}
			}
		}
		return true
	}
	if !cmp("border variant", ob) {
		return r
	}
	ra, nrec, perr := vfRecordings(c.Cfg, c.Rec, c.Frames, A, false)
	if perr != "" {
		r.Failf("%s", perr)
		return r
	}
	rb, _, _ := vfRecordings(c.Cfg, c.Rec, c.Frames, B, false)
	if ra != rb {
		r.Failf("border variant: recording boundaries differ:\n base: %s\n variant: %s", ra, rb)
		return r
	}
	// and through the raw-frame path (parser + processor), where a zero border pixel must not make a frame bad
	pa, _, _ := vfRecordings(c.Cfg, c.Rec, c.Frames, A, true)
	pb, _, _ := vfRecordings(c.Cfg, c.Rec, c.Frames, B, true)
	if pa != pb {
		r.Failf("border variant through Process(): accepted frames / recording boundaries differ:\n base: %s\n variant: %s", pa, pb)
		return r
	}
	changedCold := 0
	if !c.Cfg.Dynamic {
		C := make([][]uint16, n)
		for i := range A {
			C[i] = append([]uint16{}, A[i]...)
			for _, m := range c.ColdMut[i] {
				if m.P >= 0 && m.P < len(C[i]) && c.Cfg.interior(m.P) && A[i][m.P] <= c.Cfg.T && m.V <= c.Cfg.T {
					if C[i][m.P] != m.V {
						changedCold++
					}
					C[i][m.P] = m.V
				}
			}
		}
		oc := vfObserve(c.Cfg, c.Frames, C)
		if !cmp("sub-threshold variant", oc) {
			return r
		}
		rc, _, _ := vfRecordings(c.Cfg, c.Rec, c.Frames, C, false)
		if ra != rc {
			r.Failf("sub-threshold variant: recording boundaries differ:\n base: %s\n variant: %s", ra, rc)
			return r
		}
	}
	anyMotion := false
	for _, m := range oa.detect {
		anyMotion = anyMotion || m
	}
	if c.Cfg.Dynamic {
		r.Class("dynamic")
	}
	if changedBorder > 0 {
		r.Class("border_changed")
	}
	if changedCold > 0 {
		r.Class("cold_changed")
	}
	if nrec > 0 {
		r.Class("has_recording")
	}
	r.NT = anyMotion && nrec > 0 && (changedNear > 0 || changedCold > 0)
	return r
}

func TestVF_C08(t *testing.T) {
	kit.Drive(t, "C08", "TestVF_C08",
		"generated: base streams (fixed and dynamic threshold, FFC events and resets allowed, 3x3..12x10, edge 0-3); variant B replaces border pixels by arbitrary values (whole-border fills with 0/65535/threshold values and single pixels next to the interior); variant C (fixed threshold) replaces interior pixels <= temp-thresh by other values <= temp-thresh. Oracle (metamorphic): identical Detect() per frame, identical background (interior and replicated border) and threshold after every frame for the dynamic threshold, identical motion-sink call sequences through two MotionProcessors. Non-trivial: the base stream has a motion frame and a recording, and the variant changed a border pixel adjacent to the interior or a cold interior pixel.",
		vfGenC08, vfRunC08)
}

// ---------------------------------------------------------------------------------------------
// C09: FFC suppression; no comparison across an FFC period or a reset.

type vfC09Case struct {
	Cfg     vfDetCfg     `json:"cfg"`
	Base    uint16       `json:"base"`
	Frames  []vfDetFrame `json:"frames"`
	Cut     int          `json:"cut"`      // -1: no pair; else index of the first frame of an FFC period, or of a reset frame
	AltBase uint16       `json:"alt_base"` // scene of the alternative history before the cut
	Alt     []vfDetFrame `json:"alt"`      // Fill/Mut of the alternative frames 0..Cut-1 (telemetry is taken from Frames)
}

func vfGenC09(t *rapid.T) vfC09Case {
	dyn := rapid.IntRange(0, 2).Draw(t, "dynamic") == 0
	c := vfC09Case{Cfg: vfGenDetCfg(t, dyn, false), Cut: -1}
	if rapid.IntRange(0, 9).Draw(t, "count0") == 0 {
		// count-thresh 0 ("any comparable frame is motion"): suppression after an FFC is all that keeps frames quiet
		c.Cfg.Count = 0
	}
	c.Base = vfGenBase(t, c.Cfg)
	n := rapid.IntRange(2, 36).Draw(t, "n")
	c.Frames = vfGenTimeline(t, n, true, true)
	vfGenScene(t, c.Cfg, c.Frames, c.Base, 4)
	// candidate cuts
	var cuts []int
	for i := 1; i < n; i++ {
		if vfAffected(c.Frames[i]) && !vfAffected(c.Frames[i-1]) {
			cuts = append(cuts, i)
		}
		if c.Frames[i].Reset && !dyn {
			cuts = append(cuts, i)
		}
	}
	if len(cuts) > 0 {
		c.Cut = rapid.SampledFrom(cuts).Draw(t, "cut")
		if dyn {
			// the statement exempts the dynamic threshold from reset independence: no reset up to the end of the period
			end := c.Cut
			for end < n && vfAffected(c.Frames[end]) {
				end++
			}
			for i := 0; i <= end && i < n; i++ {
				c.Frames[i].Reset = false
			}
		}
		c.AltBase = vfGenBase(t, c.Cfg)
		c.Alt = make([]vfDetFrame, c.Cut)
		vfGenScene(t, c.Cfg, c.Alt, c.AltBase, 5)
	}
	return c
}

func vfRunC09(c vfC09Case) *kit.Result {
	r := &kit.Result{}
	n := len(c.Frames)
	vc := c.Cfg
	if vc.Count == 0 {
		vc.Count = 1 // C09 quantifies over all motion configurations, count-thresh 0 included
	}
	if msg := vc.valid(); msg != "" || n > 300 || c.Cut >= n {
		r.Failf("malformed case: %s", msg)
		return r
	}
	A := vfMaterialise(c.Cfg, c.Frames, c.Base)
	resets := make([]bool, n)
	none := make([]bool, n)
	for i, f := range c.Frames {
		resets[i] = f.Reset
	}
	oa := vfObserve(c.Cfg, c.Frames, A)
	// (a) no detection inside an FFC period nor on the frame directly following it
	wouldFire := false
	free := vfRefDetect(c.Cfg, A, none, func(i int) uint16 { return oa.thr[i] })
	periods := 0
	for i := 0; i < n; i++ {
		aff := vfAffected(c.Frames[i])
		after := i > 0 && vfAffected(c.Frames[i-1]) && !aff
		if aff && (i == 0 || !vfAffected(c.Frames[i-1])) {
			periods++
		}
		if (aff || after) && oa.detect[i] {
			which := "within 10 s after a flat-field correction"
			if after {
				which = "directly following an FFC period"
			}
			r.Failf("frame %d (%s; time-on %dms, last FFC %dms) reported motion: %s", i, which, c.Frames[i].TimeOn, c.Frames[i].LastFFC, vfBits(oa.detect))
			return r
		}
		if after && free.Motion[i] {
			wouldFire = true
		}
	}
	if periods > 0 {
		r.Class("has_ffc_period")
	}
	if wouldFire {
		r.Class("suppression_mattered")
	}
	r.NT = wouldFire
	// (b) pair: same timeline, different pixels before the cut
	if c.Cut > 0 && len(c.Alt) == c.Cut {
		isReset := c.Frames[c.Cut].Reset
		isFFC := vfAffected(c.Frames[c.Cut]) && !vfAffected(c.Frames[c.Cut-1])
		from := -1
		switch {
		case isReset && !c.Cfg.Dynamic:
			from = c.Cut
			r.Class("pair_reset")
		case isFFC:
			from = c.Cut
			for from < n && vfAffected(c.Frames[from]) {
				from++
			}
			if c.Cfg.Dynamic {
				for i := 0; i <= from && i < n; i++ {
					if c.Frames[i].Reset {
						from = -1 // outside the relation's domain
						break
					}
				}
			}
			r.Class("pair_ffc")
		}
		if from >= 0 && from < n {
			altFrames := make([]vfDetFrame, c.Cut)
			for i := range altFrames {
				altFrames[i] = c.Frames[i]
				altFrames[i].Fill, altFrames[i].Mut = c.Alt[i].Fill, c.Alt[i].Mut
			}
			altPix := vfMaterialise(c.Cfg, altFrames, c.AltBase)
			B := make([][]uint16, n)
			copy(B, altPix)
			copy(B[c.Cut:], A[c.Cut:])
			ob := vfObserve(c.Cfg, c.Frames, B)
			for i := from; i < n; i++ {
				if oa.detect[i] != ob.detect[i] {
					r.Failf("frames before the %s at frame %d influence detection at frame %d (first frame after it: %d): %s vs %s", map[bool]string{true: "reset", false: "FFC period"}[isReset && !isFFC], c.Cut, i, from, vfBits(oa.detect), vfBits(ob.detect))
					return r
				}
				if c.Cfg.Dynamic && oa.thr[i] != ob.thr[i] {
					r.Failf("frames before the FFC period at frame %d influence the dynamic threshold at frame %d: %d vs %d", c.Cut, i, oa.thr[i], ob.thr[i])
					return r
				}
			}
			// witness: would the prefix matter if nothing were forgotten?
			fa := vfRefDetect(c.Cfg, A, none, func(i int) uint16 { return oa.thr[i] })
			fb := vfRefDetect(c.Cfg, B, none, func(i int) uint16 { return oa.thr[i] })
			for i := from; i < n; i++ {
				if fa.Motion[i] != fb.Motion[i] {
					r.NT = true
					r.Class("prefix_would_matter")
					break
				}
			}
		}
	}
	if c.Cfg.Dynamic {
		r.Class("dynamic")
	}
	_ = resets
	return r
}

func TestVF_C09(t *testing.T) {
	kit.Drive(t, "C09", "TestVF_C09",
		"generated: telemetry timelines with time-on steps from 100 ms to 12 s (FFC periods of 0..N frames), FFC events at arbitrary frames incl. the first, back-to-back, and last-FFC-time ahead of time-on; resets; fixed and dynamic threshold; all detector configurations of C07, and count-thresh 0 in one case in 10. Oracle (a): Detect() is false on every frame within 10 s after an FFC and on the frame directly following such a run. Oracle (b, metamorphic pair): two histories sharing the timeline (length, telemetry, resets) and differing only in the pixels of frames before an FFC period (fixed and dynamic; dynamic without a reset before the period's end) or before a reset (fixed) give identical Detect() results - and dynamic thresholds - from the first frame after the period / the reset. Non-trivial: the frame after a period would be motion without suppression (reference detector of C07), or the differing prefix would flip a later result if nothing were forgotten.",
		vfGenC09, vfRunC09)
}

var _ = fmt.Sprint

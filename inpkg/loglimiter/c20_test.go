//go:build verif

package loglimiter

import (
	"bytes"
	"fmt"
	"log"
	"strings"
	"testing"
	"time"

	"pgregory.net/rapid"
	kit "verifkit"
)

type vfMsg struct {
	M  int   `json:"m"`  // index into the alphabet
	Dt int64 `json:"dt"` // nanoseconds since the previous arrival
	F  bool  `json:"f"`  // through Printf instead of Print
}

type vfC20Case struct {
	Interval int64   `json:"interval_ns"`
	Msgs     []vfMsg `json:"msgs"`
}

var vfAlphabet = []string{"", "x", "y", "x ", "X", "100% full", "%d%s%v", "%",
	// long messages that differ only late: at byte 127, 128, 255, 256, 4999, and by one trailing byte
	strings.Repeat("p", 127) + "a", strings.Repeat("p", 127) + "b",
	strings.Repeat("p", 128) + "a", strings.Repeat("p", 128) + "b",
	strings.Repeat("q", 255) + "a", strings.Repeat("q", 255) + "b",
	strings.Repeat("q", 256) + "a", strings.Repeat("q", 256) + "b",
	strings.Repeat("r", 4999) + "a", strings.Repeat("r", 4999) + "b",
	strings.Repeat("s", 64), strings.Repeat("s", 65), strings.Repeat("s", 1024), strings.Repeat("s", 1025),
	// distinct messages that collide under common 32-bit checksums (FNV-1a, CRC-32, the 31-multiplier string hash)
	"costarring", "liquid", "declinate", "macallums", "altarage", "zinke", "plumless", "buckeroo", "Aa", "BB",
	// messages that differ only in trailing newlines (the logger adds one only when the message has none)
	"z", "z\n", "z\n\n"}

const vfC20Rule = "generated: interval from {1ns..1h}, up to 40 (message, delta-t, Print|Printf) arrivals with delta-t drawn from {0, 1ns, I-1ns, I, I+1ns, uniform in [0,2I]} over a 35-symbol alphabet (five pairs collide under FNV-1a, CRC-32 or the 31-multiplier string hash) (incl. the empty message, near-duplicates, messages containing '%' and pairs of long messages that differ only at byte 127, 128, 255, 256, 4999 or by one trailing byte); captured log output compared line by line with the model 'suppressed iff identical to the last printed message and less than I after that print'. Non-trivial: some message was suppressed and later printed again after the interval, and at least two different messages were printed. Distinct by hash of the case."

func vfGenC20(t *rapid.T) vfC20Case {
	iv := rapid.OneOf(
		rapid.SampledFrom([]int64{1, 2, 3, 1000, int64(time.Second), int64(time.Minute), int64(time.Hour)}),
		rapid.Int64Range(1, int64(time.Hour)),
	).Draw(t, "interval")
	c := vfC20Case{Interval: iv}
	n := rapid.IntRange(0, 40).Draw(t, "n")
	nsym := rapid.IntRange(1, 8).Draw(t, "nsym")
	// the symbols in play: the first nsym short ones, or (one case in 3) a few adjacent ones from anywhere in the
	// alphabet, which puts the long near-duplicates next to each other
	symBase := 0
	if rapid.IntRange(0, 2).Draw(t, "anywhere") == 0 {
		nsym = rapid.IntRange(2, 4).Draw(t, "nsym2")
		symBase = rapid.IntRange(0, len(vfAlphabet)-nsym).Draw(t, "symbase")
	}
	for i := 0; i < n; i++ {
		var dt int64
		switch rapid.IntRange(0, 6).Draw(t, "dtclass") {
		case 0:
			dt = 0
		case 1:
			dt = 1
		case 2:
			dt = iv - 1
		case 3:
			dt = iv
		case 4:
			dt = iv + 1
		case 5:
			dt = rapid.Int64Range(0, 2*iv).Draw(t, "dt")
		case 6:
			dt = iv / 2
		}
		c.Msgs = append(c.Msgs, vfMsg{M: symBase + rapid.IntRange(0, nsym-1).Draw(t, "m"), Dt: dt, F: rapid.Bool().Draw(t, "f")})
	}
	return c
}

func vfRunC20(c vfC20Case) *kit.Result {
	r := &kit.Result{}
	var buf bytes.Buffer
	oldW, oldF, oldP := log.Writer(), log.Flags(), log.Prefix()
	log.SetOutput(&buf)
	log.SetFlags(0)
	log.SetPrefix("")
	defer func() { log.SetOutput(oldW); log.SetFlags(oldF); log.SetPrefix(oldP) }()

	now := time.Date(2021, 3, 4, 5, 6, 7, 0, time.UTC)
	lim := New(time.Duration(c.Interval))
	lim.nowFunc = func() time.Time { return now }

	// model: last printed entry and its time
	have := false
	var lastMsg string
	var lastT time.Time
	var want []string
	suppressed := map[string]bool{}
	reprinted := map[string]bool{}
	ntSuppressThenPrint := false
	distinct := map[string]bool{}
	nsupp := 0
	for i, m := range c.Msgs {
		if m.M < 0 || m.M >= len(vfAlphabet) || m.Dt < 0 {
			r.Failf("malformed case")
			return r
		}
		now = now.Add(time.Duration(m.Dt))
		s := vfAlphabet[m.M]
		before := buf.Len()
		if m.F {
			lim.Printf("%s", s)
		} else {
			lim.Print(s)
		}
		printed := buf.Len() != before
		wantPrinted := !(have && s == lastMsg && now.Sub(lastT) < time.Duration(c.Interval))
		if wantPrinted {
			want = append(want, s)
			if suppressed[s] {
				reprinted[s] = true
				ntSuppressThenPrint = true
			}
			distinct[s] = true
			have, lastMsg, lastT = true, s, now
		} else {
			suppressed[s] = true
			nsupp++
		}
		if printed != wantPrinted {
			r.Failf("arrival %d (%q, %v after the last print of %q): printed=%v, want %v (interval %v)", i, s, now.Sub(lastT), lastMsg, printed, wantPrinted, time.Duration(c.Interval))
			return r
		}
	}
	wantOut := ""
	for _, w := range want {
		wantOut += w
		if !strings.HasSuffix(w, "\n") {
			wantOut += "\n" // the standard logger ends the line itself only when the message does not
		}
	}
	if buf.String() != wantOut {
		r.Failf("log output %q, want %q (every printed message unmodified, one line each)", buf.String(), wantOut)
	}
	r.NT = ntSuppressThenPrint && len(distinct) >= 2
	if nsupp > 0 {
		r.Class("has_suppressed")
	}
	if ntSuppressThenPrint {
		r.Class("suppressed_then_reprinted")
	}
	return r
}

func TestVF_C20(t *testing.T) {
	kit.Drive(t, "C20", "TestVF_C20", vfC20Rule, vfGenC20, vfRunC20)
}

// ---------------------------------------------------------------------------------------------
// corollary: a single condition recurring every p < I is reported on its first arrival and then
// once per interval: consecutive lines are >= I and < I+p apart, and reporting never stops.

type vfC20Periodic struct {
	Interval int64 `json:"interval_ns"`
	Period   int64 `json:"period_ns"`
	N        int   `json:"n"`
	M        int   `json:"m"`
}

func vfGenC20Periodic(t *rapid.T) vfC20Periodic {
	iv := rapid.OneOf(rapid.SampledFrom([]int64{2, 1000, int64(time.Minute)}), rapid.Int64Range(2, int64(time.Hour))).Draw(t, "interval")
	p := rapid.OneOf(rapid.SampledFrom([]int64{1, iv - 1, iv / 2, (iv + 8) / 9}), rapid.Int64Range(1, iv-1)).Draw(t, "period")
	if p < 1 {
		p = 1
	}
	if p >= iv {
		p = iv - 1
	}
	return vfC20Periodic{Interval: iv, Period: p, N: rapid.IntRange(1, 400).Draw(t, "n"), M: rapid.IntRange(0, len(vfAlphabet)-4).Draw(t, "m")}
}

func vfRunC20Periodic(c vfC20Periodic) *kit.Result {
	r := &kit.Result{}
	if c.Period < 1 || c.Period >= c.Interval || c.M < 0 || c.M >= len(vfAlphabet) {
		r.Failf("malformed case")
		return r
	}
	var buf bytes.Buffer
	oldW, oldF, oldP := log.Writer(), log.Flags(), log.Prefix()
	log.SetOutput(&buf)
	log.SetFlags(0)
	log.SetPrefix("")
	defer func() { log.SetOutput(oldW); log.SetFlags(oldF); log.SetPrefix(oldP) }()
	start := time.Date(2021, 3, 4, 5, 6, 7, 0, time.UTC)
	now := start
	lim := New(time.Duration(c.Interval))
	lim.nowFunc = func() time.Time { return now }
	var printedAt []int64
	for i := 0; i < c.N; i++ {
		now = start.Add(time.Duration(int64(i) * c.Period))
		before := buf.Len()
		lim.Print(vfAlphabet[c.M])
		if buf.Len() != before {
			printedAt = append(printedAt, int64(i)*c.Period)
		}
	}
	if len(printedAt) == 0 || printedAt[0] != 0 {
		r.Failf("the first arrival of a recurring message was not printed")
		return r
	}
	for i := 1; i < len(printedAt); i++ {
		gap := printedAt[i] - printedAt[i-1]
		if gap < c.Interval {
			r.Failf("two lines for the same recurring message %dns apart, interval %dns", gap, c.Interval)
			return r
		}
		if gap >= c.Interval+c.Period {
			r.Failf("recurring message not reported for %dns (interval %dns, period %dns): reporting stalled", gap, c.Interval, c.Period)
			return r
		}
	}
	if tail := int64(c.N-1)*c.Period - printedAt[len(printedAt)-1]; tail >= c.Interval {
		r.Failf("recurring message stopped being reported: last line %dns before the last arrival (interval %dns)", tail, c.Interval)
		return r
	}
	if strings.Count(buf.String(), "\n") != len(printedAt) {
		r.Failf("line count mismatch")
	}
	r.NT = len(printedAt) >= 3
	return r
}

func TestVF_C20_Periodic(t *testing.T) {
	kit.Drive(t, "C20", "TestVF_C20_Periodic",
		"generated: one message arriving every p < I (I up to 1h, p from {1ns, I-1, I/2, I/9, uniform}) for up to 400 arrivals; the first arrival is printed, consecutive lines are >= I and < I+p apart, and the last line is less than I before the last arrival. Non-trivial: at least 3 lines were printed.",
		vfGenC20Periodic, vfRunC20Periodic)
}

// TestVF_C20_Exhaustive enumerates every sequence of 7 arrivals over 2 messages x 4 delta-t classes.
func TestVF_C20_Exhaustive(t *testing.T) {
	const L = 7
	const I = 1000
	dts := []int64{0, I - 1, I, I + 1}
	s := kit.Begin("C20", "TestVF_C20_Exhaustive", fmt.Sprintf("exhaustive: every sequence of %d arrivals over 2 messages x delta-t in {0, I-1, I, I+1} (I=%dns), alternately through Print and Printf; non-trivial as in the generated check", L, I))
	defer s.End()
	s.SetExhaustive()
	s.ReplayTest = "TestVF_C20"
	total := 1
	for i := 0; i < L; i++ {
		total *= 8
	}
	evals, nt := 0, 0
	for code := 0; code < total; code++ {
		c := vfC20Case{Interval: I}
		x := code
		for i := 0; i < L; i++ {
			c.Msgs = append(c.Msgs, vfMsg{M: 1 + x%2, Dt: dts[(x/2)%4], F: (i+code)%2 == 0})
			x /= 8
		}
		r := vfRunC20(c)
		evals++
		if r.NT {
			nt++
			if nt == 1 {
				s.Sample(c)
			}
		}
		if r.Err != "" {
			s.AddCounts(evals, nt)
			s.Fail(c, r.Err)
			t.Fatalf("C20 violated: %s", r.Err)
		}
	}
	s.AddCounts(evals, nt)
}

//go:build verif

package main

import (
	"bufio"
	"bytes"
	"testing"

	"gopkg.in/yaml.v1"
	kit "verifkit"

	"github.com/TheCacophonyProject/lepton3"
	"github.com/TheCacophonyProject/thermal-recorder/headers"
)

// C14 (camera daemon side): the marker leptond sends and the header keys it uses are the ones the
// recorder understands. sendCameraSpecs itself needs camera hardware; what it sends is a yaml.v1 encoding
// of a map keyed by the headers package constants, which is checked here from inside package main of
// cmd/leptond against headers.ReadHeaderInfo.
func TestVF_C14_Leptond(t *testing.T) {
	s := kit.Begin("C14", "TestVF_C14_Leptond", "fixed cases from inside cmd/leptond: the 'clear' marker constant is the 5 bytes \"clear\" (shorter than any frame, so it cannot be mistaken for a frame start), and a description built with the keys and constants leptond uses (headers.*, lepton3.BytesPerFrame, lepton3.Brand) is read back by headers.ReadHeaderInfo field for field")
	defer s.End()
	r := &kit.Result{NT: true}
	if clearBuffer != "clear" || len(clearBuffer) != 5 {
		r.Failf("leptond's marker is %q, the recorder waits for the 5 bytes \"clear\"", clearBuffer)
	}
	if telemetryBytes != 640 {
		r.Failf("leptond assumes %d telemetry bytes, the Lepton raw frame carries 640", telemetryBytes)
	}
	for i, serial := range []int{0, 1, 123456789} {
		specs := map[string]interface{}{
			headers.XResolution: lepton3.FrameCols, headers.YResolution: lepton3.FrameRows, headers.FrameSize: lepton3.BytesPerFrame,
			headers.Model: []string{lepton3.Model, lepton3.Model35, lepton3.Model}[i], headers.Brand: lepton3.Brand, headers.FPS: framesHz,
			headers.Serial: serial, headers.Firmware: "1.2.3",
		}
		y, err := yaml.Marshal(specs)
		if err != nil {
			r.Failf("yaml: %v", err)
			break
		}
		h, err := headers.ReadHeaderInfo(bufio.NewReader(bytes.NewReader(append(y, '\n'))))
		if err != nil || h == nil {
			r.Failf("the recorder cannot read leptond's description: %v", err)
			break
		}
		if h.ResX() != lepton3.FrameCols || h.ResY() != lepton3.FrameRows || h.FrameSize() != lepton3.BytesPerFrame || h.Brand() != lepton3.Brand || h.FPS() != framesHz || h.CameraSerial() != serial || h.Firmware() != "1.2.3" || h.Model() != specs[headers.Model] {
			r.Failf("leptond's description %v is read back as %+v", specs, h)
		}
		if h.FrameSize() != 640+2*h.ResX()*h.ResY() {
			r.Failf("frame size %d is not consistent with %dx%d pixels plus telemetry", h.FrameSize(), h.ResX(), h.ResY())
		}
		c := map[string]interface{}{"serial": serial}
		s.Record(c, r)
		if r.Err != "" {
			break
		}
	}
	if r.Err != "" {
		s.Fail(map[string]string{"fixed": "leptond constants"}, r.Err)
		t.Fatalf("C14 violated: %s", r.Err)
	}
}

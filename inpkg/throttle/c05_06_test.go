//go:build verif

package throttle

import (
	"strings"
	"encoding/binary"
	"errors"
	"fmt"
	"math"
	"os"
	"path/filepath"
	"testing"
	"time"

	config "github.com/TheCacophonyProject/go-config"
	"github.com/TheCacophonyProject/go-cptv/cptvframe"
	"github.com/TheCacophonyProject/thermal-recorder/motion"
	"github.com/TheCacophonyProject/thermal-recorder/recorder"
	"github.com/TheCacophonyProject/window"
	"github.com/juju/ratelimit"
	"pgregory.net/rapid"
	kit "verifkit"
)

type vfCam struct{ X, Y, F int }

func (c vfCam) ResX() int { return c.X }
func (c vfCam) ResY() int { return c.Y }
func (c vfCam) FPS() int  { return c.F }

// vfClock is the injected clock. With tick > 0 every reading is later than the one before (time passes while
// a call is being served); the harness suspends that for its own look-aheads.
type vfClock struct {
	now   time.Time
	tick  time.Duration
	quiet bool
}

func (c *vfClock) Now() time.Time {
	if c.tick > 0 && !c.quiet {
		c.now = c.now.Add(c.tick)
	}
	return c.now
}
func (c *vfClock) Sleep(d time.Duration) { c.now = c.now.Add(d) }

// op kinds
const (
	vfAdv   = 0
	vfStart = 1
	vfWrite = 2
	vfStop  = 3
	vfCheck = 4 // CheckCanRecord, as the motion processor asks before every start
	vfEdge  = 5 // advance the clock to 1 ns before the budget reaches one minimum-length recording (if it is below)
)

type vfOp struct {
	K  int   `json:"k"`
	Dt int64 `json:"dt,omitempty"` // ns, for vfAdv
	N  int   `json:"n,omitempty"`  // repeat count for vfWrite
}

type vfThrCfg struct {
	BucketMs    int64 `json:"bucket_ms"`
	MinRefillMs int64 `json:"min_refill_ms"`
	MinPrev     int   `json:"min_plus_preview_secs"`
	FPS         int   `json:"fps"`
	// ViaFile: the settings reach the throttler the way the daemon gets them - written to a config.toml
	// ([thermal-throttler] bucket-size / min-refill) and loaded with goconfig.New + throttle.NewConfig
	ViaFile bool `json:"via_file,omitempty"`
	// Prior: throttlers built from the very same configuration object before the one under test, as the daemon
	// does on every camera connection
	Prior int `json:"prior,omitempty"`
	// RealCtor: built with NewThrottledRecorder, the constructor the daemon uses (wall clock); only with a
	// min-refill of two hours and no clock advance in the schedule, so that no token can arrive during the run
	RealCtor bool `json:"real_ctor,omitempty"`
}

// throttler builds the throttler under test the way the daemon does on its (Prior+1)-th camera connection.
func (c vfThrCfg) throttler(base recorder.Recorder, ev ThrottledEventListener, clock ratelimit.Clock, cam cptvframe.CameraSpec) *ThrottledRecorder {
	conf := c.conf()
	for i := 0; i < c.Prior; i++ {
		NewThrottledRecorderWithClock(vfNoRecorder{}, conf, c.MinPrev, nil, clock, cam)
	}
	if c.RealCtor {
		return NewThrottledRecorder(base, conf, c.MinPrev, ev, cam)
	}
	return NewThrottledRecorderWithClock(base, conf, c.MinPrev, ev, clock, cam)
}

type vfNoRecorder struct{}

func (vfNoRecorder) StopRecording() error                             { return nil }
func (vfNoRecorder) StartRecording(*cptvframe.Frame, uint16) error    { return nil }
func (vfNoRecorder) WriteFrame(*cptvframe.Frame) error                { return nil }
func (vfNoRecorder) CheckCanRecord() error                            { return nil }

func (c vfThrCfg) valid() bool {
	return c.BucketMs >= 1000 && c.BucketMs <= 3600000 && c.MinRefillMs >= 1 && c.MinRefillMs <= 7200000 && c.MinPrev >= 1 && c.MinPrev <= 60 && c.FPS >= 1 && c.FPS <= 30 && c.Prior >= 0 && c.Prior <= 50
}
func (c vfThrCfg) conf() *config.ThermalThrottler {
	if c.ViaFile {
		dir, err := os.MkdirTemp(os.Getenv("VERIF_SCRATCH"), "thrconf-")
		if err != nil {
			panic(err)
		}
		defer os.RemoveAll(dir)
		toml := fmt.Sprintf("[thermal-throttler]\nactivate = true\nbucket-size = %q\nmin-refill = %q\n",
			(time.Duration(c.BucketMs) * time.Millisecond).String(), (time.Duration(c.MinRefillMs) * time.Millisecond).String())
		if err := os.WriteFile(filepath.Join(dir, "config.toml"), []byte(toml), 0644); err != nil {
			panic(err)
		}
		raw, err := config.New(dir)
		if err != nil {
			panic(fmt.Sprintf("goconfig.New: %v", err))
		}
		tc, err := NewConfig(raw)
		if err != nil {
			panic(fmt.Sprintf("throttle.NewConfig: %v", err))
		}
		return tc
	}
	return &config.ThermalThrottler{Activate: true, BucketSize: time.Duration(c.BucketMs) * time.Millisecond, MinRefill: time.Duration(c.MinRefillMs) * time.Millisecond}
}
func (c vfThrCfg) bucketFrames() float64 { return float64(c.BucketMs) / 1000 * float64(c.FPS) }
func (c vfThrCfg) capacity() int64       { return int64(c.BucketMs/1000) * int64(c.FPS) }
func (c vfThrCfg) minLen() int64         { return int64(c.MinPrev * c.FPS) }
func (c vfThrCfg) rate() float64         { return float64(c.minLen()) / (float64(c.MinRefillMs) / 1000) } // frames per second

type vfThrCase struct {
	Cfg       vfThrCfg `json:"cfg"`
	Ops       []vfOp   `json:"ops"`
	StartFail []int    `json:"start_fail,omitempty"` // ordinals of base StartRecording calls that fail
	CheckFail []int    `json:"check_fail,omitempty"` // ordinals of base CheckCanRecord calls that fail
	StopFail  []int    `json:"stop_fail,omitempty"`  // ordinals of base StopRecording calls that fail
	WriteFail []int    `json:"write_fail,omitempty"` // ordinals of base WriteFrame calls that fail
	Sessions  bool     `json:"sessions"`             // caller keeps to start; write*; stop
	TickNs    int64    `json:"tick_ns,omitempty"`    // every reading of the clock is this much later than the previous one
}

// base recorder mock
type vfBaseCall struct {
	C    byte // S W P K
	At   time.Time
	Req  int // index of the caller request during which it happened
	Err  bool
	F    *cptvframe.Frame
	Bg   *cptvframe.Frame
	Thr  uint16
}

type vfBase struct {
	clock  *vfClock
	calls  []vfBaseCall
	req    int
	starts int
	fail   map[int]bool
	checks    int
	checkFail map[int]bool
	stops     int
	stopFail  map[int]bool
	writes    int
	writeFail map[int]bool
}

var vfInjected = errors.New("injected start failure")

func (b *vfBase) StopRecording() error {
	n := b.stops
	b.stops++
	b.calls = append(b.calls, vfBaseCall{C: 'P', At: b.clock.now, Req: b.req, Err: b.stopFail[n]})
	if b.stopFail[n] {
		return vfInjected
	}
	return nil
}
func (b *vfBase) StartRecording(bg *cptvframe.Frame, thr uint16) error {
	n := b.starts
	b.starts++
	b.calls = append(b.calls, vfBaseCall{C: 'S', At: b.clock.now, Req: b.req, Err: b.fail[n], Bg: bg, Thr: thr})
	if b.fail[n] {
		return vfInjected
	}
	return nil
}
func (b *vfBase) WriteFrame(f *cptvframe.Frame) error {
	n := b.writes
	b.writes++
	b.calls = append(b.calls, vfBaseCall{C: 'W', At: b.clock.now, Req: b.req, F: f, Err: b.writeFail[n]})
	if b.writeFail[n] {
		return vfInjected
	}
	return nil
}
func (b *vfBase) CheckCanRecord() error {
	n := b.checks
	b.checks++
	b.calls = append(b.calls, vfBaseCall{C: 'K', At: b.clock.now, Req: b.req, Err: b.checkFail[n]})
	if b.checkFail[n] {
		return vfInjected
	}
	return nil
}

var _ recorder.Recorder = (*vfBase)(nil)

type vfEvents struct {
	base *vfBase
	at   []int // caller request index of each WhenThrottled
}

func (e *vfEvents) WhenThrottled() { e.at = append(e.at, e.base.req) }

// vfBound checks C05 on the base trace: for every pair of writes i<=j,
// count(i..j) <= bucketFrames + 1.01*rate*(t_j - t_i) + 2.
func vfBound(c vfThrCfg, calls []vfBaseCall) (string, float64) {
	B := c.bucketFrames()
	rate := c.rate() * 1.01
	minG := math.Inf(1)
	k := 0
	var t0 time.Time
	worst := math.Inf(-1)
	var minAt time.Time
	minK := 0
	for _, cl := range calls {
		if cl.C != 'W' {
			continue
		}
		if k == 0 {
			t0 = cl.At
		}
		t := cl.At.Sub(t0).Seconds()
		g := float64(k) - rate*t
		if g < minG {
			minG, minAt, minK = g, cl.At, k
		}
		excess := g - minG + 1 - B // frames in the window beyond the bucket + refill
		if excess > worst {
			worst = excess
		}
		if excess > 2+1e-6 {
			return fmt.Sprintf("%d frames reached storage in the %v between base writes #%d and #%d; bucket %.1f frames + refill %.3f frames (+2 tolerance) allows %.3f",
				k-minK+1, cl.At.Sub(minAt), minK, k, B, rate*cl.At.Sub(minAt).Seconds(), B+rate*cl.At.Sub(minAt).Seconds()+2), excess
		}
		k++
	}
	return "", worst
}

type vfThrRun struct {
	base   *vfBase
	events *vfEvents
	// per caller request: kind and returned error
	reqK   []int
	reqErr []bool
	reqAt  []time.Time
	frames []*cptvframe.Frame
	bgs    []*cptvframe.Frame
	thrs   []uint16
}

func vfRunThrottle(c vfThrCase) *vfThrRun {
	clock := &vfClock{now: time.Date(2021, 1, 1, 0, 0, 0, 0, time.UTC), tick: time.Duration(c.TickNs)}
	base := &vfBase{clock: clock, fail: map[int]bool{}, checkFail: map[int]bool{}, stopFail: map[int]bool{}}
	for _, i := range c.StopFail {
		base.stopFail[i] = true
	}
	base.writeFail = map[int]bool{}
	for _, i := range c.WriteFail {
		base.writeFail[i] = true
	}
	for _, i := range c.StartFail {
		base.fail[i] = true
	}
	for _, i := range c.CheckFail {
		base.checkFail[i] = true
	}
	ev := &vfEvents{base: base}
	cam := vfCam{4, 4, c.Cfg.FPS}
	th := c.Cfg.throttler(base, ev, clock, cam)
	run := &vfThrRun{base: base, events: ev}
	inSession := false
	req := func(k int, f func() error, fr, bg *cptvframe.Frame, thr uint16) error {
		base.req = len(run.reqK)
		err := f()
		run.reqK = append(run.reqK, k)
		run.reqErr = append(run.reqErr, err != nil)
		run.reqAt = append(run.reqAt, clock.now)
		run.frames = append(run.frames, fr)
		run.bgs = append(run.bgs, bg)
		run.thrs = append(run.thrs, thr)
		return err
	}
	nstart := 0
	for _, op := range c.Ops {
		switch op.K {
		case vfAdv:
			if op.Dt > 0 {
				clock.now = clock.now.Add(time.Duration(op.Dt))
			}
		case vfStart:
			if c.Sessions && inSession {
				continue
			}
			bg := cptvframe.NewFrame(cam)
			thr := uint16(1000 + nstart)
			nstart++
			err := req(vfStart, func() error { return th.StartRecording(bg, thr) }, nil, bg, thr)
			if err == nil {
				inSession = true
			}
		case vfWrite:
			n := op.N
			if n < 1 {
				n = 1
			}
			for i := 0; i < n; i++ {
				if c.Sessions && !inSession {
					break
				}
				f := cptvframe.NewFrame(cam)
				req(vfWrite, func() error { return th.WriteFrame(f) }, f, nil, 0)
			}
		case vfStop:
			if c.Sessions && !inSession {
				continue
			}
			req(vfStop, func() error { return th.StopRecording() }, nil, nil, 0)
			inSession = false
		case vfCheck:
			req(vfCheck, func() error { return th.CheckCanRecord() }, nil, nil, 0)
		case vfEdge:
			// look ahead on a copy of the bucket's state (restored after every probe) for the first instant at
			// which a minimum-length recording of budget is available, and stop the clock 1 ns short of it
			clock.quiet = true
			probe := func(t time.Time) bool {
				saved := *th.bucket
				keep := clock.now
				clock.now = t
				a := th.bucket.Available()
				*th.bucket = saved
				clock.now = keep
				return a >= c.Cfg.minLen()
			}
			if !probe(clock.now) {
				lo := clock.now
				hi := lo.Add(time.Duration(float64(c.Cfg.minLen()+2)/c.Cfg.rate()*1.02*float64(time.Second)) + time.Second)
				if probe(hi) {
					for hi.Sub(lo) > 1 {
						mid := lo.Add(hi.Sub(lo) / 2)
						if probe(mid) {
							hi = mid
						} else {
							lo = mid
						}
					}
					// the next reading of a ticking clock is the last instant below the threshold, the one after
					// it the first instant at it
					clock.now = lo.Add(-clock.tick)
				}
			}
			clock.quiet = false
		}
	}
	return run
}

// ---------------------------------------------------------------------------------------------
// generators

func vfGenThrCfg(t *rapid.T) vfThrCfg {
	c := vfThrCfg{}
	c.FPS = rapid.SampledFrom([]int{1, 2, 3, 9}).Draw(t, "fps")
	c.BucketMs = int64(rapid.IntRange(1, 30).Draw(t, "bucket")) * 1000
	if rapid.IntRange(0, 9).Draw(t, "fracbucket") == 0 {
		c.BucketMs += int64(rapid.IntRange(1, 999).Draw(t, "bucketms"))
	}
	c.MinRefillMs = rapid.SampledFrom([]int64{1000, 2000, 5000, 20000, 60000, 600000, 3600000, 1500, 333}).Draw(t, "minrefill")
	c.MinPrev = rapid.IntRange(1, 6).Draw(t, "minprev")
	c.ViaFile = rapid.IntRange(0, 4).Draw(t, "viafile") == 0
	c.Prior = rapid.SampledFrom([]int{0, 0, 0, 1, 2, 5}).Draw(t, "prior")
	return c
}

func vfGenDt(t *rapid.T, c vfThrCfg) int64 {
	fill := int64(1e9 / c.rate()) // one token
	frame := int64(time.Second) / int64(c.FPS)
	return rapid.SampledFrom([]int64{0, 1, frame, frame, frame, fill - 1, fill, fill + 1, fill / 2, 3 * fill,
		int64(time.Second), int64(time.Duration(c.MinRefillMs) * time.Millisecond), int64(time.Duration(c.MinRefillMs)*time.Millisecond) / 2,
		int64(time.Duration(c.BucketMs) * time.Millisecond), int64(time.Hour), int64(37 * time.Minute)}).Draw(t, "dt")
}

func vfGenThrOps(t *rapid.T, c vfThrCfg, sessions bool) []vfOp {
	var ops []vfOp
	n := rapid.IntRange(1, 60).Draw(t, "nops")
	frame := int64(time.Second) / int64(c.FPS)
	B := int(c.capacity())
	for i := 0; i < n; i++ {
		switch rapid.IntRange(0, 10).Draw(t, "op") {
		case 10: // a request made 1 ns before (or, one reading of a ticking clock later, right when) a full clip of budget is there
			ops = append(ops, vfOp{K: vfEdge})
			if rapid.Bool().Draw(t, "edgeplus") {
				ops = append(ops, vfOp{K: vfAdv, Dt: rapid.Int64Range(1, 2).Draw(t, "edgedt")})
			}
			if rapid.Bool().Draw(t, "edgestart") {
				ops = append(ops, vfOp{K: vfStart})
			} else {
				ops = append(ops, vfOp{K: vfWrite, N: 1})
			}
		case 0, 1:
			ops = append(ops, vfOp{K: vfAdv, Dt: vfGenDt(t, c)})
		case 2, 3:
			ops = append(ops, vfOp{K: vfStart})
		case 4:
			ops = append(ops, vfOp{K: vfStop})
		case 5, 6: // a burst of writes without clock movement
			k := rapid.SampledFrom([]int{1, 2, int(c.minLen()) - 1, int(c.minLen()), int(c.minLen()) + 1, B - 1, B, B + 1, B + int(c.minLen())}).Draw(t, "burst")
			if k < 1 {
				k = 1
			}
			if k > 400 {
				k = 400
			}
			ops = append(ops, vfOp{K: vfWrite, N: k})
		case 7, 8, 9: // frames at the camera's pace
			k := rapid.IntRange(1, 3*B/2+5).Draw(t, "paced")
			if k > 300 {
				k = 300
			}
			for j := 0; j < k; j++ {
				ops = append(ops, vfOp{K: vfWrite, N: 1}, vfOp{K: vfAdv, Dt: frame})
			}
		}
	}
	return ops
}

func vfGenC05(t *rapid.T) vfThrCase {
	c := vfThrCase{Cfg: vfGenThrCfg(t)}
	c.Sessions = rapid.Bool().Draw(t, "sessions")
	c.Ops = vfGenThrOps(t, c.Cfg, c.Sessions)
	c.TickNs = rapid.SampledFrom([]int64{0, 0, 0, 1, 2, 1000}).Draw(t, "tick")
	return c
}

func vfThrCaseOK(c vfThrCase) bool {
	if !c.Cfg.valid() || len(c.Ops) > 20000 {
		return false
	}
	total := 0
	for _, o := range c.Ops {
		if o.K < 0 || o.K > 5 || o.Dt < 0 || o.N < 0 || o.N > 2000 {
			return false
		}
		total += o.N + 1
	}
	return total < 200000
}

func vfRunC05(c vfThrCase) *kit.Result {
	r := &kit.Result{}
	if !vfThrCaseOK(c) {
		r.Failf("malformed case")
		return r
	}
	if msg := vfProductionClockMonotonic(); msg != "" {
		r.Failf("%s", msg)
		return r
	}
	run := vfRunThrottle(c)
	msg, worst := vfBound(c.Cfg, run.base.calls)
	if msg != "" {
		r.Failf("%s", msg)
		return r
	}
	writes := 0
	for _, cl := range run.base.calls {
		if cl.C == 'W' {
			writes++
		}
	}
	idleBurst := false
	var lastW time.Time
	for _, cl := range run.base.calls {
		if cl.C == 'W' {
			if !lastW.IsZero() && cl.At.Sub(lastW) > time.Duration(c.Cfg.MinRefillMs)*time.Millisecond {
				idleBurst = true
			}
			lastW = cl.At
		}
	}
	if worst > -2 {
		r.Class("bound_tight")
	}
	if idleBurst {
		r.Class("idle_then_burst")
	}
	if len(run.events.at) > 0 {
		r.Class("throttled")
	}
	if c.Cfg.minLen() > c.Cfg.capacity() {
		r.Class("never_records")
	}
	r.NT = writes > 0 && (worst > -2 || idleBurst) && len(run.events.at) > 0
	return r
}

func TestVF_C05(t *testing.T) {
	kit.Drive(t, "C05", "TestVF_C05",
		"generated: bucket-size 1-30 s (sometimes fractional), min-refill 0.33 s-1 h, min+preview 1-6 s, fps 1-9; up to 60 operation groups over {advance the injected clock by 0 / 1 ns / around one token's fill interval / seconds / min-refill / hours, start, stop, bursts of writes sized around min-length and the bucket, frames at the camera's pace}, both as well-formed sessions and in arbitrary order. Oracle: for every pair of frames that reached the wrapped recorder, count <= bucket-size*fps + 1.01*rate*(elapsed) + 2 (running-minimum form, all pairs). Non-trivial: frames were recorded, a throttle event occurred, and the bound came within 2 frames of tight or a burst followed an idle period longer than min-refill.",
		vfGenC05, vfRunC05)
}

// ---------------------------------------------------------------------------------------------
// C05 composition: real MotionProcessor -> ThrottledRecorder -> recording mock

type vfCompCase struct {
	Cfg                       vfThrCfg `json:"cfg"`
	Min, Preview, Max, Trigger int
	// segments: N frames with motion bit M, then idle for Idle ms
	Seg []struct {
		N    int   `json:"n"`
		M    bool  `json:"m"`
		Idle int64 `json:"idle_ms"`
	} `json:"seg"`
}

func vfGenComp(t *rapid.T) vfCompCase {
	c := vfCompCase{}
	c.Cfg = vfGenThrCfg(t)
	c.Min = rapid.IntRange(0, 3).Draw(t, "min")
	c.Preview = rapid.IntRange(0, 3).Draw(t, "preview")
	if c.Min+c.Preview < 1 {
		c.Min = 1
	}
	c.Cfg.MinPrev = c.Min + c.Preview
	c.Max = c.Min + rapid.IntRange(0, 4).Draw(t, "maxx")
	c.Trigger = rapid.IntRange(0, 2).Draw(t, "trigger")
	if c.Preview*c.Cfg.FPS+c.Trigger < 1 {
		c.Trigger = 1
	}
	n := rapid.IntRange(1, 10).Draw(t, "nseg")
	for i := 0; i < n; i++ {
		var s struct {
			N    int   `json:"n"`
			M    bool  `json:"m"`
			Idle int64 `json:"idle_ms"`
		}
		s.N = rapid.IntRange(1, 120).Draw(t, "n")
		s.M = rapid.IntRange(0, 3).Draw(t, "m") > 0 // mostly motion: continuous motion is the stress case
		if rapid.IntRange(0, 3).Draw(t, "idle") == 0 {
			s.Idle = rapid.SampledFrom([]int64{1000, c.Cfg.MinRefillMs / 2, c.Cfg.MinRefillMs, 2 * c.Cfg.MinRefillMs, 3600000}).Draw(t, "idlems")
		}
		c.Seg = append(c.Seg, s)
	}
	return c
}

const vfCompHdr = 4

func vfCompParse(raw []byte, out *cptvframe.Frame, edge int) error {
	out.Status = cptvframe.Telemetry{TimeOn: time.Minute + time.Duration(binary.LittleEndian.Uint32(raw))*111*time.Millisecond, FrameCount: int(binary.LittleEndian.Uint32(raw))}
	i := vfCompHdr
	for y := range out.Pix {
		for x := range out.Pix[y] {
			out.Pix[y][x] = binary.LittleEndian.Uint16(raw[i:])
			i += 2
		}
	}
	return nil
}

func vfRunComp(c vfCompCase) *kit.Result {
	r := &kit.Result{}
	if !c.Cfg.valid() || c.Min < 0 || c.Preview < 0 || c.Max < c.Min || c.Trigger < 0 || c.Preview*c.Cfg.FPS+c.Trigger < 1 || c.Cfg.MinPrev != c.Min+c.Preview || len(c.Seg) > 200 {
		r.Failf("malformed case")
		return r
	}
	clock := &vfClock{now: time.Date(2021, 1, 1, 0, 0, 0, 0, time.UTC)}
	base := &vfBase{clock: clock, fail: map[int]bool{}}
	ev := &vfEvents{base: base}
	cam := vfCam{3, 3, c.Cfg.FPS}
	th := c.Cfg.throttler(base, ev, clock, cam)
	w, _ := window.New("10:00", "10:00", 0, 0)
	rc := &recorder.RecorderConfig{MinSecs: c.Min, MaxSecs: c.Max, PreviewSecs: c.Preview, Window: *w}
	mc := &config.ThermalMotion{TempThresh: 1000, DeltaThresh: 50, CountThresh: 1, FrameCompareGap: 1, UseOneDiffOnly: true, TriggerFrames: c.Trigger}
	mp := motion.NewMotionProcessor(vfCompParse, mc, rc, &config.Location{}, nil, th, cam, nil, &vfBase{clock: clock, fail: map[int]bool{}})
	raw := make([]byte, vfCompHdr+2*9)
	level := false
	id := 0
	frameDt := time.Second / time.Duration(c.Cfg.FPS)
	for _, s := range c.Seg {
		if s.N < 0 || s.N > 2000 || s.Idle < 0 {
			r.Failf("malformed case")
			return r
		}
		for i := 0; i < s.N; i++ {
			if s.M {
				level = !level
			}
			binary.LittleEndian.PutUint32(raw, uint32(id))
			id++
			for p := 0; p < 9; p++ {
				v := uint16(2000)
				if p == 4 && level {
					v = 2051
				}
				binary.LittleEndian.PutUint16(raw[vfCompHdr+2*p:], v)
			}
			if err := mp.Process(raw); err != nil {
				r.Failf("frame rejected: %v", err)
				return r
			}
			clock.now = clock.now.Add(frameDt)
		}
		clock.now = clock.now.Add(time.Duration(s.Idle) * time.Millisecond)
	}
	msg, worst := vfBound(c.Cfg, base.calls)
	if msg != "" {
		r.Failf("composed with the motion processor: %s", msg)
		return r
	}
	// bracket protocol at the wrapped recorder
	if msg := vfBaseProtocol(base.calls); msg != "" {
		r.Failf("composed with the motion processor: %s", msg)
		return r
	}
	writes := 0
	for _, cl := range base.calls {
		if cl.C == 'W' {
			writes++
		}
	}
	if len(ev.at) > 0 {
		r.Class("throttled")
	}
	if worst > -2 {
		r.Class("bound_tight")
	}
	r.NT = writes > 0 && len(ev.at) > 0
	return r
}

func vfBaseProtocol(calls []vfBaseCall) string {
	open := false
	for i, cl := range calls {
		switch cl.C {
		case 'S':
			if open {
				return fmt.Sprintf("wrapped recorder: call %d StartRecording while a file is open", i)
			}
			if !cl.Err {
				open = true
			}
		case 'W':
			if !open {
				return fmt.Sprintf("wrapped recorder: call %d WriteFrame with no file open", i)
			}
		case 'P':
			if !open {
				return fmt.Sprintf("wrapped recorder: call %d StopRecording with no file open", i)
			}
			open = false
		}
	}
	return ""
}

func TestVF_C05_Composed(t *testing.T) {
	kit.Drive(t, "C05", "TestVF_C05_Composed",
		"generated: the real MotionProcessor (motion programmed through a toggling pixel, mostly continuous motion) feeding the ThrottledRecorder wired as in main.go (minimum length = min-secs + preview-secs), injected clock advanced 1/fps per frame with occasional idles up to 1 h. Oracle: the C05 bound over every pair of frames that reached the wrapped recorder, and the bracket protocol there. Non-trivial: frames were recorded and a throttle event occurred.",
		vfGenComp, vfRunComp)
}

// ---------------------------------------------------------------------------------------------
// C06: transparency, clean cuts, restart only with a full clip, one event per suppressed start / cut.

func vfGenC06(t *rapid.T) vfThrCase {
	c := vfThrCase{Cfg: vfGenThrCfg(t), Sessions: true}
	if rapid.IntRange(0, 9).Draw(t, "realctor") == 0 {
		// the constructor the daemon uses (wall clock): two hours of min-refill, so the bucket cannot gain a token
		// while the schedule runs, and no clock advance in the schedule
		c.Cfg.RealCtor, c.Cfg.ViaFile, c.Cfg.Prior = true, false, 0
		c.Cfg.MinRefillMs = 7200000
		c.Cfg.MinPrev = rapid.IntRange(1, 2).Draw(t, "minprevreal")
		for _, o := range vfGenThrOps(t, c.Cfg, true) {
			if o.K != vfAdv && o.K != vfEdge {
				c.Ops = append(c.Ops, o)
			}
		}
		return c
	}
	if rapid.IntRange(0, 3).Draw(t, "frozen") == 0 {
		// frozen clock: no advance at all
		ops := vfGenThrOps(t, c.Cfg, true)
		for _, o := range ops {
			if o.K != vfAdv && o.K != vfEdge {
				c.Ops = append(c.Ops, o)
			}
		}
	} else {
		c.Ops = vfGenThrOps(t, c.Cfg, true)
		c.TickNs = rapid.SampledFrom([]int64{0, 0, 0, 1, 2, 1000}).Draw(t, "tick")
	}
	// storage checks at arbitrary moments, some of them failing
	if rapid.Bool().Draw(t, "checks") {
		var ops []vfOp
		for _, o := range c.Ops {
			if rapid.IntRange(0, 4).Draw(t, "checkhere") == 0 {
				ops = append(ops, vfOp{K: vfCheck})
			}
			ops = append(ops, o)
		}
		c.Ops = ops
		c.CheckFail = rapid.SliceOfN(rapid.IntRange(0, 12), 0, 4).Draw(t, "checkfail")
	}
	// the wrapped recorder's stop failing (the file counts as closed all the same), singly or for a while
	switch rapid.IntRange(0, 5).Draw(t, "stopfail") {
	case 0:
		c.StopFail = rapid.SliceOfN(rapid.IntRange(0, 6), 1, 3).Draw(t, "stopfails")
	case 1:
		from := rapid.IntRange(0, 4).Draw(t, "stopfailfrom")
		for i := 0; i < 6; i++ {
			c.StopFail = append(c.StopFail, from+i)
		}
	}
	if rapid.IntRange(0, 4).Draw(t, "writefail") == 0 {
		c.WriteFail = rapid.SliceOfN(rapid.IntRange(0, 40), 1, 5).Draw(t, "writefails")
	}
	c.StartFail = []int{}
	n := rapid.SampledFrom([]int{0, 0, 1, 2, 3}).Draw(t, "nfail")
	for i := 0; i < n; i++ {
		c.StartFail = append(c.StartFail, rapid.IntRange(0, 8).Draw(t, "fail"))
	}
	return c
}

func vfRunC06(c vfThrCase) *kit.Result {
	r := &kit.Result{}
	if !vfThrCaseOK(c) || !c.Sessions {
		r.Failf("malformed case")
		return r
	}
	run := vfRunThrottle(c)
	calls := run.base.calls
	if msg := vfBaseProtocol(calls); msg != "" {
		r.Failf("%s", msg)
		return r
	}
	B := float64(c.Cfg.capacity())
	minLen := c.Cfg.minLen()
	rate := c.Cfg.rate()
	frozen := true
	for _, o := range c.Ops {
		if (o.K == vfAdv && o.Dt > 0) || o.K == vfEdge {
			frozen = false
		}
	}
	if c.TickNs > 0 {
		frozen = false
	}
	// group base calls and events per caller request
	perReq := make([][]vfBaseCall, len(run.reqK))
	for _, cl := range calls {
		perReq[cl.Req] = append(perReq[cl.Req], cl)
	}
	evPer := make([]int, len(run.reqK))
	for _, q := range run.events.at {
		evPer[q]++
	}
	// forwarded-write times for the budget sandwich
	type wt struct{ at time.Time }
	var fw []time.Time
	// tokens(t) bounds, from the history of forwarded frames (tokens are consumed by forwarded frames only)
	bounds := func(now time.Time) (lo, hi float64) {
		consumedTotal := float64(len(fw))
		lo = B - consumedTotal
		hi = B
		// candidate reference points: every forwarded write time (state just before it) and the start
		for i := 0; i <= len(fw); i++ {
			var s time.Time
			var consumed float64 // frames forwarded at or after reference point i
			if i == len(fw) {
				s = now
				consumed = 0
			} else {
				s = fw[i]
				consumed = float64(len(fw) - i)
			}
			el := now.Sub(s).Seconds()
			if h := B - consumed + 1.01*rate*el + 2; h < hi {
				hi = h
			}
			add := 0.99*rate*el - 2
			if add > B {
				add = B
			}
			if l := add - consumed; l > lo {
				lo = l
			}
		}
		if lo < 0 {
			lo = 0
		}
		return
	}
	open := false
	var curBg *cptvframe.Frame
	var curThr uint16
	fileFrames := 0
	remaining := int64(B) // exact counter for frozen-clock histories
	cuts, restarts, suppressed, failedStarts := 0, 0, 0, 0
	checksSeen, checkWhileThrottled := 0, false
	cutThenRestart, failWhileThrottled := false, false
	throttledOnce := false
	shape := func(cs []vfBaseCall) string {
		s := ""
		for _, cl := range cs {
			ch := string(cl.C)
			if cl.C == 'S' && cl.Err {
				ch = "s"
			}
			s += ch
		}
		return s
	}
	for q, k := range run.reqK {
		cs := perReq[q]
		sh := shape(cs)
		now := run.reqAt[q]
		lo, hi := bounds(now)
		fail := func(format string, a ...interface{}) *kit.Result {
			r.Failf("caller request %d (%s at +%v, file open=%v, budget in [%.2f, %.2f], min length %d): %s", q, []string{"", "start", "write", "stop", "storage check"}[k], now.Sub(run.reqAt[0]), open, lo, hi, minLen, fmt.Sprintf(format, a...))
			return r
		}
		switch k {
		case vfCheck:
			// the storage check is the wrapped recorder's, whatever the state of the bucket
			if sh != "K" {
				return fail("calls on the wrapped recorder %q, want exactly one storage check forwarded", sh)
			}
			if cs[0].Err != run.reqErr[q] {
				return fail("the wrapped recorder's storage check failed=%v but the caller was told failed=%v", cs[0].Err, run.reqErr[q])
			}
			if evPer[q] != 0 {
				return fail("throttle event on a storage check")
			}
			checksSeen++
			if hi < float64(minLen) {
				checkWhileThrottled = true
			}
		case vfStart:
			curBg, curThr = run.bgs[q], run.thrs[q]
			switch sh {
			case "S":
				if run.reqErr[q] {
					return fail("start forwarded successfully but an error was returned")
				}
				if evPer[q] != 0 {
					return fail("throttle event on a forwarded start")
				}
				if hi < float64(minLen) {
					return fail("file started although less than one minimum-length recording of budget can be available")
				}
				if frozen && remaining < minLen {
					return fail("frozen clock: file started with %d frames of budget left", remaining)
				}
				if cs[0].Bg != curBg || cs[0].Thr != curThr {
					return fail("start not forwarded unchanged (background / threshold differ)")
				}
				open, fileFrames = true, 0
			case "s":
				if !run.reqErr[q] {
					return fail("the wrapped recorder's start failed but no error was returned")
				}
				if evPer[q] != 0 {
					return fail("throttle event on a failed start")
				}
				if cs[0].Bg != curBg || cs[0].Thr != curThr {
					return fail("start not forwarded unchanged (background / threshold differ)")
				}
				failedStarts++
				if throttledOnce {
					failWhileThrottled = true
				}
			case "":
				if run.reqErr[q] {
					return fail("suppressed start returned an error")
				}
				if evPer[q] != 1 {
					return fail("suppressed start produced %d throttle events, want exactly 1", evPer[q])
				}
				if lo >= float64(minLen) {
					return fail("start suppressed although at least one minimum-length recording of budget is certainly available")
				}
				if frozen && remaining >= minLen {
					return fail("frozen clock: start suppressed with %d frames of budget left", remaining)
				}
				suppressed++
				throttledOnce = true
			default:
				return fail("unexpected calls on the wrapped recorder: %q", sh)
			}
		case vfWrite:
			if open {
				switch sh {
				case "W":
					if evPer[q] != 0 {
						return fail("throttle event on a forwarded frame")
					}
					if cs[0].F != run.frames[q] {
						return fail("a different frame was forwarded")
					}
					if cs[0].Err != run.reqErr[q] {
						return fail("the wrapped recorder's write failed=%v but the caller was told failed=%v", cs[0].Err, run.reqErr[q])
					}
					if frozen && remaining < 1 {
						return fail("frozen clock: frame forwarded with no budget left")
					}
					fw = append(fw, now)
					remaining--
					fileFrames++
				case "P":
					if evPer[q] != 1 {
						return fail("throttle cut produced %d events, want exactly 1", evPer[q])
					}
					if lo >= 1 {
						return fail("file cut although at least one frame of budget is certainly available")
					}
					if frozen && remaining >= 1 {
						return fail("frozen clock: file cut with %d frames of budget left", remaining)
					}
					if int64(fileFrames) < minLen {
						return fail("throttle-cut file holds %d frames, fewer than one minimum-length recording", fileFrames)
					}
					open = false
					cuts++
					throttledOnce = true
				default:
					return fail("unexpected calls on the wrapped recorder: %q (want the frame forwarded, or a clean cut)", sh)
				}
			} else {
				switch sh {
				case "":
					if evPer[q] != 0 {
						return fail("throttle event on a silently dropped frame (events are per suppressed start / cut, never per frame)")
					}
					if lo >= float64(minLen) {
						return fail("frame dropped although at least one minimum-length recording of budget is certainly available (the file must be restarted)")
					}
					if frozen && remaining >= minLen {
						return fail("frozen clock: no restart with %d frames of budget left", remaining)
					}
				case "SW":
					if evPer[q] != 0 {
						return fail("throttle event on a restart")
					}
					if hi < float64(minLen) {
						return fail("file restarted although less than one minimum-length recording of budget can be available")
					}
					if frozen && remaining < minLen {
						return fail("frozen clock: file restarted with %d frames of budget left", remaining)
					}
					if cs[0].Bg != curBg || cs[0].Thr != curThr {
						return fail("mid-trigger restart did not pass the remembered background / threshold")
					}
					if cs[1].F != run.frames[q] {
						return fail("a different frame was forwarded")
					}
					open, fileFrames = true, 1
					fw = append(fw, now)
					remaining--
					restarts++
					if cuts > 0 {
						cutThenRestart = true
					}
				case "s":
					if !run.reqErr[q] {
						return fail("the wrapped recorder's restart failed but no error was returned")
					}
					if evPer[q] != 0 {
						return fail("throttle event on a failed restart")
					}
					failedStarts++
					failWhileThrottled = true
				default:
					return fail("unexpected calls on the wrapped recorder: %q (want nothing, or start+frame)", sh)
				}
			}
		case vfStop:
			want := ""
			if open {
				want = "P"
			}
			if sh != want {
				return fail("stop: calls on the wrapped recorder %q, want %q (a stop is forwarded iff a file is open)", sh, want)
			}
			if evPer[q] != 0 {
				return fail("throttle event on a stop")
			}
			open = false
		}
	}
	if cuts > 0 {
		r.Class("cut")
	}
	if restarts > 0 {
		r.Class("mid_trigger_restart")
	}
	if suppressed > 0 {
		r.Class("suppressed_start")
	}
	if failedStarts > 0 {
		r.Class("failed_start")
	}
	if frozen {
		r.Class("frozen_clock")
	}
	if checkWhileThrottled {
		r.Class("storage_check_while_throttled")
	}
	_ = checksSeen
	r.NT = cutThenRestart || failWhileThrottled
	return r
}

func TestVF_C06(t *testing.T) {
	kit.Drive(t, "C06", "TestVF_C06",
		"generated: request/clock schedules as in C05 restricted to caller-well-formed sessions (start; writes; stop), a quarter of them with a frozen clock, the others with requests placed 1 ns before (or right when) a full clip of budget becomes available and, in half of these, a clock that moves on by 1 ns - 1 us at every reading (time passes while a request is served), plus the wrapped recorder's start failing at generated ordinals. Oracle: (1) model-free invariants on the wrapped recorder's call trace and the event listener - bracket protocol, each caller request maps to an allowed shape (open: frame or cut; closed: nothing, failed start, restart = start+frame), exactly one event per suppressed start and per cut and none otherwise, stop forwarded iff a file is open, a cut file holds >= min-length frames, background/threshold/frame passed through unchanged; (2) budget sandwich from the forwarded frames alone: certainly-available budget (>= bucket - consumed, >= 0.99*rate*elapsed - 2 - consumed since any earlier point) forces forwarding / restart, certainly-unavailable budget (< min length by bucket - consumed + 1.01*rate*elapsed + 2 from any earlier point) forbids a (re)start; (3) exact counter model when the clock never advances. Non-trivial: a cut followed by a mid-trigger restart, or a failing start after throttling began.",
		vfGenC06, vfRunC06)
}


// vfProductionClockMonotonic: the clock the daemon's constructor hands to the token bucket must carry Go's
// monotonic reading; without it the bucket's elapsed time follows wall-clock steps (NTP setting the time of a
// Pi without a battery-backed clock) and a step forward is credited as refill earned.
func vfProductionClockMonotonic() string {
	t0 := new(realClock).Now()
	if !strings.Contains(t0.String(), " m=") {
		return fmt.Sprintf("the production clock returns %q: no monotonic reading, so a forward step of the wall clock counts as time during which refill was earned", t0.String())
	}
	return ""
}

//go:build verif

package main

import (
	"bytes"
	"encoding/binary"
	"fmt"
	"io"
	"log"
	"net"
	"os"
	"path/filepath"
	"regexp"
	"runtime"
	"sort"
	"strconv"
	"strings"
	"sync"
	"sync/atomic"
	"testing"
	"time"

	"gopkg.in/yaml.v1"
	"pgregory.net/rapid"
	kit "verifkit"

	"github.com/TheCacophonyProject/thermal-recorder/headers"
)

// C18: thermal-writer stores every frame once, in order, byte for byte, in well-formed CPTR files.

type vfTWCase struct {
	FrameSize int    `json:"frame_size"`
	Frames    int    `json:"frames"`
	Seed      uint32 `json:"seed"`        // content of frame i is a function of (seed, i)
	TailBytes int    `json:"tail_bytes"`  // bytes of one more, incomplete frame sent before the connection closes
	Chunks    []int  `json:"chunks"`      // write sizes (cycled); empty: one write per frame
	PauseEach int    `json:"pause_each"`  // sender yields / sleeps after every PauseEach-th write (0: never)
	PauseUs   int    `json:"pause_us"`
	Procs     int    `json:"gomaxprocs"`
	Burners   int    `json:"burners"`     // CPU-burning goroutines competing with reader and writer
	W, H, FPS int
	Model     string
	Brand     string
	DevName   string
	DevID     int
	// ClearAt: numbers of frames whose first five bytes spell the camera daemon's "clear" message (frames are
	// opaque to thermal-writer: they must be stored like any other)
	ClearAt []int `json:"clear_at,omitempty"`
	// Lead: the first frame of the connection begins with these bytes (line ends, blanks, a YAML document marker:
	// whatever follows the header's blank line is frame data)
	Lead string `json:"lead,omitempty"`
	// Stale: the output directory already holds longer files under the names of the coming seconds (a clock that
	// was set back): what is written now must not keep any of their content
	Stale bool `json:"stale,omitempty"`
	// StallFrame/StallBytes/StallMs: the sender goes silent for StallMs after StallBytes bytes of frame StallFrame
	// (0 bytes: between frames), then carries on where it stopped
	StallFrame int `json:"stall_frame,omitempty"`
	StallBytes int `json:"stall_bytes,omitempty"`
	StallMs    int `json:"stall_ms,omitempty"`
	// LogFrameRate: thermal-writer started with its frame-rate diagnostics on (-r): logging only
	LogFrameRate bool `json:"log_frame_rate,omitempty"`
}

func vfGenTW(t *rapid.T) vfTWCase {
	c := vfTWCase{}
	c.FrameSize = rapid.OneOf(rapid.SampledFrom([]int{8, 16, 640, 39040, 4096, 4097, 32768, 65535, 65536, 65537, 70000, 655360}), rapid.IntRange(8, 39040)).Draw(t, "framesize")
	c.Frames = rapid.OneOf(rapid.SampledFrom([]int{0, 1, 255, 256, 257, 512, 700, 1500}), rapid.IntRange(0, 1500)).Draw(t, "frames")
	if c.FrameSize > 40000 && c.Frames*c.FrameSize > 48<<20 {
		c.Frames = (48 << 20) / c.FrameSize // sizes beyond 16 bits, up to a 640x512 Boson frame: bounded volume
	}
	if c.FrameSize > 8000 && c.Frames > 900 {
		c.Frames = 900
	}
	c.Seed = uint32(rapid.IntRange(1, 1<<30).Draw(t, "seed"))
	if rapid.Bool().Draw(t, "tail") {
		c.TailBytes = rapid.IntRange(1, c.FrameSize-1).Draw(t, "tailbytes")
	}
	if rapid.IntRange(0, 2).Draw(t, "chunked") == 0 {
		c.Chunks = rapid.SliceOfN(rapid.SampledFrom([]int{1, 7, 64, 1000, 4096, 40000, 100000}), 1, 4).Draw(t, "chunks")
		if c.FrameSize*c.Frames > 400000 {
			for i, n := range c.Chunks {
				if n < 64 {
					c.Chunks[i] = 64 // keep huge streams from being sent byte by byte
				}
			}
		}
	}
	if rapid.IntRange(0, 2).Draw(t, "pauses") == 0 {
		c.PauseEach = rapid.SampledFrom([]int{1, 10, 100, 300}).Draw(t, "pauseeach")
		c.PauseUs = rapid.SampledFrom([]int{0, 1, 50, 500}).Draw(t, "pauseus")
	}
	if rapid.Bool().Draw(t, "burst") {
		// a burst sender: the reader outruns the writer until all 256 buffers are in flight
		if c.Frames < 300 {
			c.Frames = rapid.IntRange(300, 1200).Draw(t, "burstframes")
		}
		if c.FrameSize > 8000 && c.Frames > 900 {
			c.Frames = 900
		}
		c.Chunks, c.PauseEach = nil, 0
	}
	if rapid.IntRange(0, 7).Draw(t, "bigfile") == 0 {
		// more than the 32 MiB write buffer goes into one file
		c.FrameSize = rapid.SampledFrom([]int{39040, 38000, 163840}).Draw(t, "bigframe")
		c.Frames = 34*1024*1024/c.FrameSize + rapid.IntRange(1, 40).Draw(t, "bigextra")
		c.Chunks, c.PauseEach, c.TailBytes = nil, 0, 0
	}
	c.Procs = rapid.SampledFrom([]int{1, 2, 4, 16}).Draw(t, "procs")
	c.Burners = rapid.IntRange(0, 3).Draw(t, "burners")
	c.W, c.H = 160, 120
	c.FPS = rapid.SampledFrom([]int{1, 9, 30, 60}).Draw(t, "fps")
	c.Model = rapid.SampledFrom([]string{"lepton3", "lepton3.5", "boson", "", "m: x", strings.Repeat("m", 92), strings.Repeat("M", 255)}).Draw(t, "model")
	c.Brand = rapid.SampledFrom([]string{"flir", "", "true", strings.Repeat("b", 120)}).Draw(t, "brand")
	c.DevName = rapid.SampledFrom([]string{"dev", "", "a b", "名", strings.Repeat("d", 76), strings.Repeat("d", 97), strings.Repeat("D", 255)}).Draw(t, "devname")
	c.DevID = rapid.SampledFrom([]int{0, 7, 123456}).Draw(t, "devid")
	if c.Frames > 0 && rapid.IntRange(0, 3).Draw(t, "clearframes") == 0 {
		for i := rapid.IntRange(1, 3).Draw(t, "nclear"); i > 0; i-- {
			c.ClearAt = append(c.ClearAt, rapid.IntRange(0, c.Frames-1).Draw(t, "clearat"))
		}
	}
	if rapid.IntRange(0, 3).Draw(t, "leadbytes") == 0 {
		c.Lead = rapid.SampledFrom([]string{"\n", "\n\n", "\r\n", " ", "\t", "---\n", "\n\nclear", "a: b\n\n"}).Draw(t, "lead")
	}
	c.Stale = rapid.IntRange(0, 3).Draw(t, "stale") == 0
	c.LogFrameRate = rapid.IntRange(0, 2).Draw(t, "lograte") == 0
	return c
}

func vfTWFrame(c vfTWCase, i int, buf []byte) {
	// xorshift stream seeded by (seed, i); first 4 bytes carry the frame number
	x := c.Seed ^ uint32(i*2654435761+1)
	if x == 0 {
		x = 1
	}
	for j := 0; j+4 <= len(buf); j += 4 {
		x ^= x << 13
		x ^= x >> 17
		x ^= x << 5
		binary.LittleEndian.PutUint32(buf[j:], x)
	}
	for j := len(buf) &^ 3; j < len(buf); j++ {
		buf[j] = byte(x >> (8 * uint(j&3)))
	}
	if len(buf) >= 4 {
		binary.LittleEndian.PutUint32(buf, uint32(i))
	}
	for _, k := range c.ClearAt {
		if k == i && len(buf) >= 5 {
			copy(buf, "clear")
		}
	}
	if i == 0 && c.Lead != "" {
		copy(buf, c.Lead)
	}
}

type vfTWLog struct {
	mu sync.Mutex
	b  bytes.Buffer
}

func (l *vfTWLog) Write(p []byte) (int, error) {
	l.mu.Lock()
	defer l.mu.Unlock()
	return l.b.Write(p)
}
func (l *vfTWLog) String() string {
	l.mu.Lock()
	defer l.mu.Unlock()
	return l.b.String()
}

var vfInitialFLI1, vfInitialFLI = frameLogIntervalFirstMin, frameLogInterval

// vfParseCPTR is an independent parser of the CPTR container: magic, version 2, 'H' section with fields,
// then 'F' sections each with a FrameSize field followed by that many bytes.
type vfCPTR struct {
	Fields map[byte][]byte
	Frames [][]byte
}

func vfParseCPTR(b []byte) (*vfCPTR, error) {
	if len(b) < 7 || string(b[:4]) != "CPTR" {
		return nil, fmt.Errorf("bad magic")
	}
	if b[4] != 2 {
		return nil, fmt.Errorf("version %d, want 2", b[4])
	}
	if b[5] != 'H' {
		return nil, fmt.Errorf("first section %q, want 'H'", b[5])
	}
	pos := 6
	readFields := func() (map[byte][]byte, error) {
		if pos >= len(b) {
			return nil, fmt.Errorf("truncated field count at %d", pos)
		}
		n := int(b[pos])
		pos++
		f := map[byte][]byte{}
		for i := 0; i < n; i++ {
			if pos+2 > len(b) {
				return nil, fmt.Errorf("truncated field header at %d", pos)
			}
			size, code := int(b[pos]), b[pos+1]
			pos += 2
			if pos+size > len(b) {
				return nil, fmt.Errorf("truncated field %q at %d", code, pos)
			}
			if _, dup := f[code]; dup {
				return nil, fmt.Errorf("duplicate field %q", code)
			}
			f[code] = b[pos : pos+size]
			pos += size
		}
		return f, nil
	}
	out := &vfCPTR{}
	var err error
	if out.Fields, err = readFields(); err != nil {
		return nil, err
	}
	for pos < len(b) {
		if b[pos] != 'F' {
			return nil, fmt.Errorf("section %q at offset %d, want 'F' (%d frames parsed)", b[pos], pos, len(out.Frames))
		}
		pos++
		f, err := readFields()
		if err != nil {
			return nil, fmt.Errorf("frame %d: %v", len(out.Frames), err)
		}
		sz, ok := f['f']
		if !ok || len(sz) != 4 || len(f) != 1 {
			return nil, fmt.Errorf("frame %d: want exactly one FrameSize field, got %v", len(out.Frames), f)
		}
		n := int(binary.LittleEndian.Uint32(sz))
		if pos+n > len(b) {
			return nil, fmt.Errorf("frame %d: %d bytes announced, %d left (file truncated)", len(out.Frames), n, len(b)-pos)
		}
		out.Frames = append(out.Frames, b[pos:pos+n])
		pos += n
	}
	return out, nil
}

var vfBacklogRe = regexp.MustCompile(`high write backlog \((\d+)\)`)

func vfWriterGoroutines() int {
	buf := make([]byte, 1<<20)
	n := runtime.Stack(buf, true)
	// the writer goroutine is the only goroutine handleConn creates (a goroutine that has not run yet is
	// listed under its wrapper, so match on the creator)
	return strings.Count(string(buf[:n]), "created by github.com/TheCacophonyProject/thermal-recorder/cmd/thermal-writer.handleConn")
}

func vfRunTW(c vfTWCase) *kit.Result {
	r := &kit.Result{}
	if c.FrameSize < 4 || c.FrameSize > 700000 || c.Frames < 0 || c.Frames > 5000 || c.TailBytes < 0 || c.TailBytes >= c.FrameSize || c.Procs < 1 || c.Procs > 64 || c.Burners < 0 || c.Burners > 8 || c.FPS < 1 || c.FPS > 255 {
		r.Failf("malformed case")
		return r
	}
	old := runtime.GOMAXPROCS(c.Procs)
	defer runtime.GOMAXPROCS(old)
	dir, err := os.MkdirTemp(os.Getenv("VERIF_SCRATCH"), "tw-")
	if err != nil {
		panic(err)
	}
	defer os.RemoveAll(dir)
	junk := bytes.Repeat([]byte{0xEE}, 300000)
	if c.Stale {
		now := time.Now()
		for d := -1; d <= 12; d++ {
			os.WriteFile(filepath.Join(dir, now.Add(time.Duration(d)*time.Second).Format("2006_01_02T15_04_05")+".cptr"), junk, 0644)
		}
	}
	lb := &vfTWLog{}
	log.SetOutput(lb)
	defer log.SetOutput(io.Discard)
	if !keepLogIntervals {
		frameLogIntervalFirstMin, frameLogInterval = vfInitialFLI1, vfInitialFLI
	}
	conf := &Config{DeviceID: c.DevID, DeviceName: c.DevName, OutputDir: dir}
	hdr, err := yaml.Marshal(map[string]interface{}{
		headers.XResolution: c.W, headers.YResolution: c.H, headers.FrameSize: c.FrameSize, headers.Model: c.Model,
		headers.Brand: c.Brand, headers.FPS: c.FPS, headers.Serial: 1, headers.Firmware: "1.2.3",
	})
	if err != nil {
		panic(err)
	}
	hdr = append(hdr, '\n')
	server, client := net.Pipe()
	done := make(chan error, 1)
	go func() {
		defer func() {
			if p := recover(); p != nil {
				done <- fmt.Errorf("PANIC in handleConn: %v", p)
			}
		}()
		done <- handleConn(server, conf, c.LogFrameRate)
	}()
	var stopBurn int32
	var bw sync.WaitGroup
	for i := 0; i < c.Burners; i++ {
		bw.Add(1)
		go func() {
			defer bw.Done()
			x := 0
			for atomic.LoadInt32(&stopBurn) == 0 {
				for j := 0; j < 20000; j++ {
					x += j
				}
				runtime.Gosched()
			}
			_ = x
		}()
	}
	// sender
	writes := 0
	send := func(b []byte) error {
		for len(b) > 0 {
			n := len(b)
			if len(c.Chunks) > 0 {
				n = c.Chunks[writes%len(c.Chunks)]
				if n < 1 {
					n = 1
				}
				if n > len(b) {
					n = len(b)
				}
			}
			client.SetWriteDeadline(time.Now().Add(30 * time.Second))
			if _, err := client.Write(b[:n]); err != nil {
				return err
			}
			b = b[n:]
			writes++
			if c.PauseEach > 0 && writes%c.PauseEach == 0 {
				if c.PauseUs == 0 {
					runtime.Gosched()
				} else {
					time.Sleep(time.Duration(c.PauseUs) * time.Microsecond)
				}
			}
		}
		return nil
	}
	var sendErr error
	pending := append([]byte{}, hdr...)
	frame := make([]byte, c.FrameSize)
	for i := 0; i < c.Frames && sendErr == nil; i++ {
		vfTWFrame(c, i, frame)
		if c.StallMs > 0 && i == c.StallFrame {
			n := c.StallBytes
			if n > len(frame) {
				n = len(frame)
			}
			pending = append(pending, frame[:n]...)
			sendErr = send(pending)
			pending = pending[:0]
			time.Sleep(time.Duration(c.StallMs) * time.Millisecond)
			pending = append(pending, frame[n:]...)
			continue
		}
		pending = append(pending, frame...)
		// with arbitrary chunking writes may span frame boundaries: flush when enough has accumulated
		if len(c.Chunks) == 0 || len(pending) >= 200000 {
			sendErr = send(pending)
			pending = pending[:0]
		}
	}
	if sendErr == nil && c.TailBytes > 0 {
		vfTWFrame(c, c.Frames, frame)
		pending = append(pending, frame[:c.TailBytes]...)
	}
	if sendErr == nil {
		sendErr = send(pending)
	}
	client.Close()
	var herr error
	select {
	case herr = <-done:
	case <-time.After(60 * time.Second):
		atomic.StoreInt32(&stopBurn, 1)
		r.Failf("handleConn did not return within 60s of the connection closing (send error: %v)", sendErr)
		return r
	}
	// the writer goroutine flushes and closes the file after handleConn has returned: wait until it is gone
	deadline := time.Now().Add(60 * time.Second)
	for vfWriterGoroutines() > 0 {
		if time.Now().After(deadline) {
			atomic.StoreInt32(&stopBurn, 1)
			r.Failf("the writer goroutine is still running 60s after the connection ended")
			return r
		}
		time.Sleep(200 * time.Microsecond)
	}
	atomic.StoreInt32(&stopBurn, 1)
	bw.Wait()
	if sendErr != nil {
		r.Failf("the stream could not be delivered: %v (handleConn: %v)", sendErr, herr)
		return r
	}
	if herr == nil || !strings.Contains(herr.Error(), "EOF") {
		r.Failf("handleConn ended with %v, want EOF", herr)
		return r
	}
	names, _ := filepath.Glob(filepath.Join(dir, "*.cptr"))
	sort.Strings(names)
	if c.Stale {
		// the older files this connection did not write to are still what they were: set them aside
		var mine []string
		for _, n := range names {
			if b, err := os.ReadFile(n); err == nil && bytes.Equal(b, junk) {
				continue
			}
			mine = append(mine, n)
		}
		names = mine
	}
	if len(names) == 0 {
		r.Failf("no CPTR file was written")
		return r
	}
	if rotCheck {
		rotFiles = len(names)
	}
	next := 0
	want := make([]byte, c.FrameSize)
	for _, n := range names {
		b, err := os.ReadFile(n)
		if err != nil {
			panic(err)
		}
		f, err := vfParseCPTR(b)
		if err != nil {
			r.Failf("%s is not a well-formed CPTR file: %v", filepath.Base(n), err)
			return r
		}
		h := f.Fields
		u32 := func(k byte) int {
			if len(h[k]) != 4 {
				return -1
			}
			return int(binary.LittleEndian.Uint32(h[k]))
		}
		u8 := func(k byte) int {
			if len(h[k]) != 1 {
				return -1
			}
			return int(h[k][0])
		}
		if string(h['E']) != c.Model || string(h['B']) != c.Brand || u8('Z') != c.FPS&0xff || u32('X') != c.W || u32('Y') != c.H || u8('C') != 0 ||
			string(h['D']) != c.DevName || u32('I') != c.DevID || len(h['T']) != 8 {
			r.Failf("%s: header fields model=%q brand=%q fps=%d res=%dx%d compression=%d device=%q id=%d timestamp-bytes=%d; sent model=%q brand=%q fps=%d res=%dx%d device=%q id=%d",
				filepath.Base(n), h['E'], h['B'], u8('Z'), u32('X'), u32('Y'), u8('C'), h['D'], u32('I'), len(h['T']), c.Model, c.Brand, c.FPS, c.W, c.H, c.DevName, c.DevID)
			return r
		}
		for _, fr := range f.Frames {
			if next >= c.Frames {
				r.Failf("%s holds more frames than the %d complete frames that were sent", filepath.Base(n), c.Frames)
				return r
			}
			vfTWFrame(c, next, want)
			if !bytes.Equal(fr, want) {
				got := -1
				if len(fr) >= 4 {
					got = int(binary.LittleEndian.Uint32(fr))
				}
				where := 0
				for where < len(fr) && where < len(want) && fr[where] == want[where] {
					where++
				}
				r.Failf("%s: stored frame %d (%d bytes, starts with frame number %d) differs from the frame sent at that position from byte %d on (lost / duplicated / reordered / torn frame)", filepath.Base(n), next, len(fr), got, where)
				return r
			}
			next++
		}
	}
	if next != c.Frames {
		r.Failf("%d complete frames were sent, the files hold %d (queued frames must be flushed before the file is closed)", c.Frames, next)
		return r
	}
	maxBacklog := 0
	for _, m := range vfBacklogRe.FindAllStringSubmatch(lb.String(), -1) {
		if v, _ := strconv.Atoi(m[1]); v > maxBacklog {
			maxBacklog = v
		}
	}
	if maxBacklog >= 200 {
		r.Class("backlog>=200")
	} else if maxBacklog > 10 {
		r.Class("backlog>10")
	}
	r.Class(fmt.Sprintf("gomaxprocs=%d", c.Procs))
	if c.Frames > 256 {
		r.Class("frames>256")
	}
	if c.Frames*c.FrameSize > 32*1024*1024 {
		r.Class("more_than_32MiB_in_one_file")
	}
	if len(c.Chunks) > 0 {
		r.Class("chunked")
	}
	r.NT = c.Frames > 256 && maxBacklog > 10
	return r
}

func TestVF_C18(t *testing.T) {
	kit.Drive(t, "C18", "TestVF_C18",
		"generated: camera header with FrameSize 8..39040 (and 65535-70000, Boson-sized 163840 and 655360), 0-1500 frames (a class of streams exceeds the writer's 32 MiB buffer) whose bytes are a function of (seed, frame number) - a quarter of the streams with a first frame that begins with line ends, blanks or a YAML marker -, optionally a final incomplete frame, sender chunking (1 byte .. 100 kB writes spanning frame boundaries) and pauses, GOMAXPROCS in {1,2,4,16}, 0-3 CPU-burning goroutines; the real handleConn of thermal-writer on a pipe, built with the race detector. Oracle (round-trip): after handleConn has returned and the writer goroutine has exited (seen in the goroutine dump), an independent CPTR parser (magic, version 2, 'H' section with model, brand, fps, resolution, compression 0, device name/id, timestamp; 'F' sections with exactly one FrameSize field) recovers exactly the complete frames sent, once, in order, byte for byte, with no trailing bytes; zero race reports. Non-trivial: more than 256 frames (every buffer recycled) and a logged write backlog (the writer lagged the reader by more than 10 frames); the class backlog>=200 counts the cases in which at least 200 of the 256 buffers were in flight.",
		vfGenTW, vfRunTW)
}

// TestVF_C18_Rotation (thorough only): one connection lasting longer than a minute, so that the writer
// rotates to a new file at least once; every frame must be in exactly one file, in order.
func TestVF_C18_Rotation(t *testing.T) {
	s := kit.Begin("C18", "TestVF_C18_Rotation", "one paced connection of 64 s (frames of 640 bytes every 20 ms), so that the per-minute file rotation happens; the CPTR files together must hold every frame once, in order, and there must be at least two files")
	defer s.End()
	c := vfTWCase{FrameSize: 640, Frames: 3200, Seed: 77, PauseEach: 1, PauseUs: 20000, Procs: 4, W: 160, H: 120, FPS: 9, Model: "lepton3", Brand: "flir", DevName: "rot", DevID: 1}
	rotCheck = true
	defer func() { rotCheck = false }()
	r := vfRunTW(c)
	r.NT = true
	s.Record(c, r)
	s.Record(map[string]int{"files": rotFiles}, &kit.Result{NT: rotFiles >= 2})
	if r.Err != "" {
		s.Fail(c, r.Err)
		t.Fatalf("C18 violated: %s", r.Err)
	}
	if rotFiles < 2 {
		t.Fatalf("INFRA (inconclusive): the 64 s run produced %d file(s); rotation did not happen", rotFiles)
	}
}

var (
	rotCheck bool
	rotFiles int
)

// TestVF_C18_Reconnects (thorough only): many successive connections to one thermal-writer process, one
// second apart (file names have one-second resolution), at an even frame rate, with a different frame size
// each time.
func TestVF_C18_Reconnects(t *testing.T) {
	s := kit.Begin("C18", "TestVF_C18_Reconnects", "36 successive connections to one thermal-writer process (1.05 s apart), fps 60, frame sizes 64..4096 changing with every connection, 5 frames each: every connection must be served like the first (well-formed file holding exactly its frames)")
	defer s.End()
	for k := 0; k < 36; k++ {
		c := vfTWCase{FrameSize: 64 + 112*k, Frames: 5, Seed: uint32(100 + k), Procs: 4, W: 160, H: 120, FPS: 60, Model: "boson", Brand: "flir", DevName: "rc", DevID: 2}
		keepLogIntervals = k > 0
		r := vfRunTW(c)
		keepLogIntervals = false
		r.NT = true
		s.Record(c, r)
		if r.Err != "" {
			r.Err = fmt.Sprintf("connection %d of 36: %s", k+1, r.Err)
			s.Fail(c, r.Err)
			t.Fatalf("C18 violated: %s", r.Err)
		}
		time.Sleep(1050 * time.Millisecond)
	}
}

// keepLogIntervals: do not restore the daemon's package-level state between the connections of one scenario
var keepLogIntervals bool


// TestVF_C18_Stall: the camera daemon goes silent for a while (VERIF_SILENCE_S seconds, 12 by default) between two
// frames or in the middle of one, then carries on. Nothing may be lost, duplicated or shifted.
func vfGenTWStall(t *rapid.T) vfTWCase {
	c := vfTWCase{Frames: rapid.IntRange(6, 30).Draw(t, "frames"), Seed: uint32(rapid.IntRange(1, 1<<30).Draw(t, "seed")),
		Procs: 4, W: 160, H: 120, FPS: 9, Model: "lepton3", Brand: "flir", DevName: "stall", DevID: 3}
	c.FrameSize = rapid.SampledFrom([]int{64, 1000, 39040}).Draw(t, "framesize")
	c.StallFrame = rapid.IntRange(1, c.Frames-2).Draw(t, "stallframe")
	c.StallBytes = rapid.SampledFrom([]int{0, 1, 4, 5, c.FrameSize / 2, c.FrameSize - 1}).Draw(t, "stallbytes")
	secs := 12
	if v, err := strconv.Atoi(os.Getenv("VERIF_SILENCE_S")); err == nil && v > 0 {
		secs = v
	}
	c.StallMs = secs*1000 + 500
	return c
}

func TestVF_C18_Stall(t *testing.T) {
	kit.Drive(t, "C18", "TestVF_C18_Stall", "generated: one connection whose sender goes silent for 12.5 s (65.5 s in the thorough tier) between two frames or after 1, 4, 5, half or all but one byte of a frame, then carries on; same round-trip oracle as TestVF_C18. Every case counts as non-trivial.",
		vfGenTWStall, func(c vfTWCase) *kit.Result {
			r := vfRunTW(c)
			r.NT = true
			return r
		})
}


// ---------------------------------------------------------------------------------------------
// Two connections whose local start times differ by a generated number of hours (the local time zone is moved
// between them): both files must exist afterwards, each with exactly its own frames.

type vfTWClockCase struct {
	Hours     int    `json:"hours_apart"`
	FrameSize int    `json:"frame_size"`
	Frames    int    `json:"frames"`
	Seed      uint32 `json:"seed"`
}

func vfGenTWClock(t *rapid.T) vfTWClockCase {
	return vfTWClockCase{Hours: rapid.SampledFrom([]int{12, 12, -12, 1, 24, 11, 13}).Draw(t, "hours"),
		FrameSize: rapid.SampledFrom([]int{64, 640}).Draw(t, "framesize"), Frames: rapid.IntRange(3, 20).Draw(t, "frames"),
		Seed: uint32(rapid.IntRange(1, 1<<30).Draw(t, "seed"))}
}

// vfTWPlainConn plays one plain connection into dir and waits for the writer goroutine to finish.
func vfTWPlainConn(dir string, c vfTWCase) error {
	conf := &Config{DeviceID: c.DevID, DeviceName: c.DevName, OutputDir: dir}
	hdr, err := yaml.Marshal(map[string]interface{}{
		headers.XResolution: c.W, headers.YResolution: c.H, headers.FrameSize: c.FrameSize, headers.Model: c.Model,
		headers.Brand: c.Brand, headers.FPS: c.FPS, headers.Serial: 1, headers.Firmware: "1.2.3",
	})
	if err != nil {
		return err
	}
	hdr = append(hdr, '\n')
	server, client := net.Pipe()
	done := make(chan error, 1)
	go func() {
		defer func() {
			if p := recover(); p != nil {
				done <- fmt.Errorf("PANIC in handleConn: %v", p)
			}
		}()
		done <- handleConn(server, conf, c.LogFrameRate)
	}()
	client.SetWriteDeadline(time.Now().Add(20 * time.Second))
	if _, err := client.Write(hdr); err != nil {
		return err
	}
	frame := make([]byte, c.FrameSize)
	for i := 0; i < c.Frames; i++ {
		vfTWFrame(c, i, frame)
		if _, err := client.Write(frame); err != nil {
			return err
		}
	}
	client.Close()
	select {
	case herr := <-done:
		if herr == nil || !strings.Contains(herr.Error(), "EOF") {
			return fmt.Errorf("handleConn ended with %v, want EOF", herr)
		}
	case <-time.After(30 * time.Second):
		return fmt.Errorf("handleConn did not return")
	}
	deadline := time.Now().Add(30 * time.Second)
	for vfWriterGoroutines() > 0 {
		if time.Now().After(deadline) {
			return fmt.Errorf("the writer goroutine is still running 30s after the connection ended")
		}
		time.Sleep(200 * time.Microsecond)
	}
	return nil
}

func vfRunTWClock(c vfTWClockCase) *kit.Result {
	r := &kit.Result{NT: true}
	if !(c.Hours == 24 || (c.Hours >= -12 && c.Hours <= 14 && c.Hours != 0)) || c.FrameSize < 8 || c.FrameSize > 40000 || c.Frames < 1 || c.Frames > 200 {
		r.Failf("malformed case")
		return r
	}
	dir, err := os.MkdirTemp(os.Getenv("VERIF_SCRATCH"), "twclock-")
	if err != nil {
		panic(err)
	}
	defer os.RemoveAll(dir)
	log.SetOutput(io.Discard)
	frameLogIntervalFirstMin, frameLogInterval = vfInitialFLI1, vfInitialFLI
	a := vfTWCase{FrameSize: c.FrameSize, Frames: c.Frames, Seed: c.Seed, W: 160, H: 120, FPS: 9, Model: "lepton3", Brand: "flir", DevName: "clk", DevID: 4}
	b := a
	b.Seed = c.Seed ^ 0x5bd1e995
	// The local time zone is moved between the two connections so that the second one starts exactly c.Hours later
	// by the local clock, to the second (file names have one-second resolution), on the same calendar day where
	// that is possible. (This test is built without the race detector: moving time.Local is a write the detector
	// cannot order after the first connection's writer goroutine, which has exited by then.)
	oldLocal := time.Local
	defer func() { time.Local = oldLocal }()
	for time.Now().Nanosecond() > 300e6 {
		time.Sleep(5 * time.Millisecond)
	}
	tA := time.Now()
	_, offA := tA.Zone()
	time.Local = time.FixedZone("vfA", offA)
	if err := vfTWPlainConn(dir, a); err != nil {
		r.Failf("first connection: %v", err)
		return r
	}
	frameLogIntervalFirstMin, frameLogInterval = vfInitialFLI1, vfInitialFLI
	hours := c.Hours
	if hours == 12 || hours == -12 {
		hours = 12
		if tA.In(time.Local).Hour() >= 12 {
			hours = -12 // stay on the same calendar day
		}
	}
	// wait until a whole number of seconds (plus a little) has passed since tA, then compensate for them
	for {
		el := time.Since(tA)
		if ph := el % time.Second; ph > 20*time.Millisecond && ph < 300*time.Millisecond {
			time.Local = time.FixedZone("vfB", offA+hours*3600-int(el/time.Second))
			break
		}
		time.Sleep(5 * time.Millisecond)
	}
	if err := vfTWPlainConn(dir, b); err != nil {
		r.Failf("second connection: %v", err)
		return r
	}
	names, _ := filepath.Glob(filepath.Join(dir, "*.cptr"))
	sort.Strings(names)
	found := map[string]bool{}
	for _, n := range names {
		raw, err := os.ReadFile(n)
		if err != nil {
			panic(err)
		}
		f, err := vfParseCPTR(raw)
		if err != nil {
			r.Failf("%s is not a well-formed CPTR file: %v", filepath.Base(n), err)
			return r
		}
		for _, cs := range []struct {
			name string
			c    vfTWCase
		}{{"first", a}, {"second", b}} {
			if len(f.Frames) != cs.c.Frames {
				continue
			}
			want := make([]byte, cs.c.FrameSize)
			same := true
			for i, fr := range f.Frames {
				vfTWFrame(cs.c, i, want)
				if !bytes.Equal(fr, want) {
					same = false
					break
				}
			}
			if same {
				found[cs.name] = true
			}
		}
	}
	if !found["first"] || !found["second"] {
		r.Failf("two connections whose local start times were %d hours apart left %d file(s) %v; the frames of the first connection are on disk: %v, of the second: %v", c.Hours, len(names), names, found["first"], found["second"])
	}
	return r
}

func TestVF_C18_Clock(t *testing.T) {
	kit.Drive(t, "C18", "TestVF_C18_Clock", "generated: two connections to one output directory whose local start times differ by 12, -12, 1, 11, 13 or 24 hours (the local time zone is moved between them, to the second); both files must be on disk afterwards, each holding exactly its connection's frames. Every case counts as non-trivial.",
		vfGenTWClock, vfRunTWClock)
}

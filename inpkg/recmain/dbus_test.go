//go:build verif

package main

// A private D-Bus message bus (dbus-daemon, if installed) with stand-ins for the peer daemons, so that what
// the recorder tells them - and the recorder's own D-Bus service - can be observed over the real transport.

import (
	"bufio"
	"fmt"
	"os"
	"os/exec"
	"path/filepath"
	"strings"
	"sync"
	"sync/atomic"
	"testing"
	"time"

	"github.com/godbus/dbus"
	"pgregory.net/rapid"
	kit "verifkit"
)

type vfBus struct {
	addr string
	cmd  *exec.Cmd
	peer *dbus.Conn // connection owning the stand-in services
	mu   sync.Mutex
	events   []string // event types received by org.cacophony.Events (Add and Queue)
	restarts int
	autoFFC  []bool
}

var (
	vfBusOnce sync.Once
	vfTheBus  *vfBus
	vfBusErr  error
)

// vfGetBus starts the bus once per test process. nil, err if dbus-daemon is not available.
func vfGetBus() (*vfBus, error) {
	vfBusOnce.Do(func() {
		vfTheBus, vfBusErr = vfStartBus()
	})
	return vfTheBus, vfBusErr
}

func vfStartBus() (*vfBus, error) {
	bin, err := exec.LookPath("dbus-daemon")
	if err != nil {
		return nil, err
	}
	dir, err := os.MkdirTemp(os.Getenv("VERIF_SCRATCH"), "bus-")
	if err != nil {
		return nil, err
	}
	conf := filepath.Join(dir, "bus.conf")
	os.WriteFile(conf, []byte(`<!DOCTYPE busconfig PUBLIC "-//freedesktop//DTD D-Bus Bus Configuration 1.0//EN" "http://www.freedesktop.org/standards/dbus/1.0/busconfig.dtd">
<busconfig>
  <type>system</type>
  <listen>unix:dir=`+dir+`</listen>
  <auth>EXTERNAL</auth>
  <policy context="default">
    <allow send_destination="*" eavesdrop="true"/>
    <allow eavesdrop="true"/>
    <allow own="*"/>
    <allow user="*"/>
  </policy>
</busconfig>
`), 0644)
	cmd := exec.Command(bin, "--config-file="+conf, "--nofork", "--print-address=1")
	out, err := cmd.StdoutPipe()
	if err != nil {
		return nil, err
	}
	if err := cmd.Start(); err != nil {
		return nil, err
	}
	line := make(chan string, 1)
	go func() {
		s, _ := bufio.NewReader(out).ReadString('\n')
		line <- strings.TrimSpace(s)
	}()
	var addr string
	select {
	case addr = <-line:
	case <-time.After(10 * time.Second):
		cmd.Process.Kill()
		return nil, fmt.Errorf("dbus-daemon did not print its address")
	}
	if addr == "" {
		cmd.Process.Kill()
		return nil, fmt.Errorf("dbus-daemon printed no address")
	}
	b := &vfBus{addr: addr, cmd: cmd}
	// the godbus version the repository links treats DBUS_SYSTEM_BUS_ADDRESS as a socket path
	sock := addr
	if i := strings.Index(sock, "path="); i >= 0 {
		sock = sock[i+5:]
	}
	if i := strings.IndexByte(sock, ','); i >= 0 {
		sock = sock[:i]
	}
	os.Setenv("DBUS_SYSTEM_BUS_ADDRESS", sock)
	peer, err := vfDialBus(addr)
	if err != nil {
		cmd.Process.Kill()
		return nil, err
	}
	b.peer = peer
	for _, n := range []string{"org.cacophony.Events", "org.cacophony.leptond"} {
		if r, err := peer.RequestName(n, dbus.NameFlagDoNotQueue); err != nil || r != dbus.RequestNameReplyPrimaryOwner {
			cmd.Process.Kill()
			return nil, fmt.Errorf("cannot own %s on the private bus: %v %v", n, r, err)
		}
	}
	peer.Export(&vfEventsPeer{b}, "/org/cacophony/Events", "org.cacophony.Events")
	peer.Export(&vfLeptondPeer{b}, "/org/cacophony/leptond", "org.cacophony.leptond")
	return b, nil
}

func vfDialBus(addr string) (*dbus.Conn, error) {
	c, err := dbus.Dial(addr)
	if err != nil {
		return nil, err
	}
	if err := c.Auth(nil); err != nil {
		c.Close()
		return nil, err
	}
	if err := c.Hello(); err != nil {
		c.Close()
		return nil, err
	}
	return c, nil
}

func (b *vfBus) reset() {
	b.mu.Lock()
	b.events, b.restarts, b.autoFFC = nil, 0, nil
	b.mu.Unlock()
}

type vfEventsPeer struct{ b *vfBus }

// Add(details, type, unixNsec) as the event reporter's service declares it
func (p *vfEventsPeer) Add(details string, typ string, ts int64) *dbus.Error {
	p.b.mu.Lock()
	p.b.events = append(p.b.events, typ)
	p.b.mu.Unlock()
	return nil
}

// Queue(detailsJSON, unixNsec), used by the throttle event recorder
func (p *vfEventsPeer) Queue(details []byte, ts int64) *dbus.Error {
	p.b.mu.Lock()
	t := "queue"
	if strings.Contains(string(details), "throttle") {
		t = "throttle"
	}
	p.b.events = append(p.b.events, t)
	p.b.mu.Unlock()
	return nil
}

type vfLeptondPeer struct{ b *vfBus }

func (p *vfLeptondPeer) SetAutoFFC(on bool) *dbus.Error {
	p.b.mu.Lock()
	p.b.autoFFC = append(p.b.autoFFC, on)
	p.b.mu.Unlock()
	return nil
}
func (p *vfLeptondPeer) RestartCamera() *dbus.Error {
	p.b.mu.Lock()
	p.b.restarts++
	p.b.mu.Unlock()
	return nil
}
func (p *vfLeptondPeer) RunFFC() *dbus.Error { return nil }

func (b *vfBus) count(typ string) int {
	b.mu.Lock()
	defer b.mu.Unlock()
	n := 0
	for _, e := range b.events {
		if e == typ {
			n++
		}
	}
	return n
}

// ---------------------------------------------------------------------------------------------
// C13 over D-Bus: every bad frame is reported to the event service and answered with a camera restart.

func vfRunC13DBus(c vfSockCase) *kit.Result {
	r := &kit.Result{}
	if msg := vfSockValid(c); msg != "" {
		r.Failf("malformed case: %s", msg)
		return r
	}
	bus, err := vfGetBus()
	if err != nil {
		r.Class("no_dbus_daemon_case_skipped")
		return r
	}
	bus.reset()
	c.Cont = false
	o := vfRunSock(c)
	if o.err != "" {
		r.Failf("%s", o.err)
		return r
	}
	if o.connErr == nil || !strings.Contains(o.connErr.Error(), "EOF") {
		r.Failf("handleConn did not survive the stream: %v", o.connErr)
		return r
	}
	nbad := 0
	for _, it := range c.Items {
		if it.K == vfItBad {
			nbad++
		}
	}
	// calls are synchronous: by the time handleConn has returned they have all been delivered
	if got := bus.count("bad-thermal-frame"); got != nbad {
		r.Failf("%d bad frames were sent, the event service received %d 'bad-thermal-frame' events", nbad, got)
		return r
	}
	bus.mu.Lock()
	restarts := bus.restarts
	bus.mu.Unlock()
	if restarts != nbad {
		r.Failf("%d bad frames were sent, the camera daemon received %d restart requests", nbad, restarts)
		return r
	}
	m := vfSockModel(c)
	if got, want := vfIDsString(o.motion), vfIDsString(vfModelIDs(m.Motion, true)); got != want {
		r.Failf("finished motion recordings hold frames %s, want %s", got, want)
		return r
	}
	r.NT = nbad > 0
	r.Class("with_dbus")
	return r
}

func TestVF_C13_DBus(t *testing.T) {
	kit.Drive(t, "C13", "TestVF_C13_DBus",
		"generated socket streams with bad frames as in TestVF_C13_Socket, with a private D-Bus message bus (dbus-daemon) on which stand-ins for the event service and the camera daemon are registered. Oracle: exactly one 'bad-thermal-frame' event and one RestartCamera request per bad frame, observed over the real D-Bus transport; files as the model says. Non-trivial: at least one bad frame. If dbus-daemon is not installed the cases are counted as skipped.",
		vfGenC13Sock, vfRunC13DBus)
}

// ---------------------------------------------------------------------------------------------
// C16 over D-Bus: the real exported service, requests from separate bus connections.

var vfServiceStarted int32

func vfRunC16DBus(c vfC16Case) *kit.Result {
	r := &kit.Result{}
	if msg := vfC16Valid(c); msg != "" {
		r.Failf("malformed case: %s", msg)
		return r
	}
	bus, err := vfGetBus()
	if err != nil {
		r.Class("no_dbus_daemon_case_skipped")
		return r
	}
	if atomic.CompareAndSwapInt32(&vfServiceStarted, 0, 1) {
		if err := startService(os.TempDir()); err != nil {
			r.Infra = "startService on the private bus failed: " + err.Error()
			return r
		}
	}
	vfC16Remote = bus.addr
	defer func() { vfC16Remote = "" }()
	return vfRunC16(c)
}

func TestVF_C16_DBus(t *testing.T) {
	kit.Drive(t, "C16", "TestVF_C16_DBus",
		"as TestVF_C16, but the recorder's real D-Bus service is exported on a private message bus (dbus-daemon) and every requester goroutine issues TakeSnapshot / TakeTestRecording / CameraInfo as method calls over its own bus connection, so the replies are marshalled by the real transport concurrently with frame processing. Same oracles (whole, unchanged, fresh frames; sensible camera info; request-free twin; no stall; zero race reports).",
		vfGenC16, vfRunC16DBus)
}

var _ = rapid.Bool

//go:build verif

package main

// End-to-end harness: a generated config.toml is parsed by the real ParseConfig, the real handleConn is
// driven over net.Pipe with the bytes a camera daemon would send, and the files in the output directory
// are decoded with the standard CPTV reader.

import (
	"bytes"
	"encoding/binary"
	"fmt"
	"io"
	"log"
	"net"
	"os"
	"path/filepath"
	"sort"
	"strings"
	"sync"
	"time"

	cptv "github.com/TheCacophonyProject/go-cptv"
	"github.com/TheCacophonyProject/go-cptv/cptvframe"
	"gopkg.in/yaml.v1"

	"github.com/TheCacophonyProject/thermal-recorder/headers"
)

type vfCamDesc struct {
	Brand, Model, Firmware string
	W, H, FPS, Serial      int
}

func (c vfCamDesc) lepton() bool { return c.Model != "boson" }
func (c vfCamDesc) frameSize() int {
	if c.lepton() {
		return 640 + 2*c.W*c.H
	}
	return 2 * c.W * c.H
}

// vfHeaderBytes is what cmd/leptond's sendCameraSpecs writes.
func vfHeaderBytes(c vfCamDesc) []byte {
	m := map[string]interface{}{
		headers.XResolution: c.W, headers.YResolution: c.H, headers.FrameSize: c.frameSize(), headers.Model: c.Model,
		headers.Brand: c.Brand, headers.FPS: c.FPS, headers.Serial: c.Serial, headers.Firmware: c.Firmware,
	}
	b, err := yaml.Marshal(m)
	if err != nil {
		panic(err)
	}
	return append(b, '\n')
}

type vfMotionOv struct { // overrides of [thermal-motion]; nil = key omitted
	Dynamic                    *bool
	TempThresh, Delta          *int
	TMin, TMax                 *int
	Count, Gap, Trigger, Edge  *int
	OneDiff, Warmer            *bool
	Verbose                    *bool // logging only: must not change any file
}

type vfConf struct {
	DeviceID         int
	DeviceName       string
	Lat, Lon         float64
	Alt, Acc         float64
	LocTime          string // RFC3339 or ""
	LocKeys          int    // 0: full [location] section, 1: no [location] section at all, 2: altitude/accuracy only
	Min, Max, Prev   int
	Cont             bool
	MinDiskMB        int64
	Motion           vfMotionOv
	Throttle         bool
	BucketS, RefillS int
	WinStart, WinEnd string
}

func vfTomlString(s string) string {
	var b strings.Builder
	b.WriteByte('"')
	for _, r := range s {
		switch {
		case r == '"' || r == '\\':
			b.WriteByte('\\')
			b.WriteRune(r)
		case r < 0x20 || r == 0x7f:
			fmt.Fprintf(&b, "\\u%04X", r)
		default:
			b.WriteRune(r)
		}
	}
	b.WriteByte('"')
	return b.String()
}

func vfWriteConfig(dir, outDir string, c vfConf) error {
	var b strings.Builder
	fmt.Fprintf(&b, "[device]\nid = %d\nname = %s\n\n", c.DeviceID, vfTomlString(c.DeviceName))
	switch c.LocKeys {
	case 0:
		fmt.Fprintf(&b, "[location]\nlatitude = %v\nlongitude = %v\naltitude = %v\naccuracy = %v\n", c.Lat, c.Lon, c.Alt, c.Acc)
		if c.LocTime != "" {
			fmt.Fprintf(&b, "timestamp = %s\n", c.LocTime) // TOML datetime literal, as go-config itself writes it
		}
	case 2:
		fmt.Fprintf(&b, "[location]\naltitude = %v\naccuracy = %v\n", c.Alt, c.Acc)
	}
	fmt.Fprintf(&b, "\n[thermal-recorder]\noutput-dir = %s\nmin-secs = %d\nmax-secs = %d\npreview-secs = %d\nconstant-recorder = %v\nmin-disk-space-mb = %d\n\n",
		vfTomlString(outDir), c.Min, c.Max, c.Prev, c.Cont, c.MinDiskMB)
	b.WriteString("[thermal-motion]\n")
	m := c.Motion
	pb := func(k string, v *bool) {
		if v != nil {
			fmt.Fprintf(&b, "%s = %v\n", k, *v)
		}
	}
	pi := func(k string, v *int) {
		if v != nil {
			fmt.Fprintf(&b, "%s = %d\n", k, *v)
		}
	}
	pb("dynamic-threshold", m.Dynamic)
	pi("temp-thresh", m.TempThresh)
	pi("delta-thresh", m.Delta)
	pi("temp-thresh-min", m.TMin)
	pi("temp-thresh-max", m.TMax)
	pi("count-thresh", m.Count)
	pi("frame-compare-gap", m.Gap)
	pi("trigger-frames", m.Trigger)
	pi("edge-pixels", m.Edge)
	pb("use-one-diff-only", m.OneDiff)
	pb("warmer-only", m.Warmer)
	pb("verbose", m.Verbose)
	fmt.Fprintf(&b, "\n[thermal-throttler]\nactivate = %v\nbucket-size = \"%ds\"\nmin-refill = \"%ds\"\n\n", c.Throttle, c.BucketS, c.RefillS)
	fmt.Fprintf(&b, "[windows]\nstart-recording = %s\nstop-recording = %s\n\n", vfTomlString(c.WinStart), vfTomlString(c.WinEnd))
	fmt.Fprintf(&b, "[lepton]\nframe-output = %s\n", vfTomlString(filepath.Join(dir, "frames.sock")))
	return os.WriteFile(filepath.Join(dir, "config.toml"), []byte(b.String()), 0644)
}

func vfIP(v int) *int    { return &v }
func vfBP(v bool) *bool  { return &v }

// vfSimpleMotion is the fixed-threshold configuration under which one toggling interior pixel programs
// the detector (see DESIGN.md 3.1).
// vfWideMotion is vfSimpleMotion with the settings that do not matter to a fixed-threshold detector written out at
// their widest realistic values, so that the motion configuration stored in the recordings' headers is long.
func vfWideMotion(trigger, edge int) vfMotionOv {
	m := vfSimpleMotion(trigger, edge)
	m.TMin, m.TMax = vfIP(28000), vfIP(31000)
	return m
}

func vfSimpleMotion(trigger, edge int) vfMotionOv {
	return vfMotionOv{Dynamic: vfBP(false), TempThresh: vfIP(1000), Delta: vfIP(50), Count: vfIP(1), Gap: vfIP(1),
		Trigger: vfIP(trigger), Edge: vfIP(edge), OneDiff: vfBP(true), Warmer: vfBP(false)}
}

// ---------------------------------------------------------------------------------------------
// raw frames

// vfTelemetry sets the telemetry words the recorder reads (16-bit big-endian words; 32-bit values low word first).
func vfTelemetry(raw []byte, timeOnMs, lastFFCMs, frameCount uint32, fpaCentiK, fpaLastFFCCentiK uint16) {
	w := func(i int, v uint16) { binary.BigEndian.PutUint16(raw[2*i:], v) }
	w(1, uint16(timeOnMs))
	w(2, uint16(timeOnMs>>16))
	w(20, uint16(frameCount))
	w(21, uint16(frameCount>>16))
	w(24, fpaCentiK)
	w(29, fpaLastFFCCentiK)
	w(30, uint16(lastFFCMs))
	w(31, uint16(lastFFCMs>>16))
}

func vfRawFrame(c vfCamDesc, pix []uint16, timeOnMs, lastFFCMs, frameCount uint32) []byte {
	raw := make([]byte, c.frameSize())
	if c.lepton() {
		vfTelemetry(raw, timeOnMs, lastFFCMs, frameCount, 30000, 29900)
		for i, v := range pix {
			binary.BigEndian.PutUint16(raw[640+2*i:], v)
		}
	} else {
		for i, v := range pix {
			binary.LittleEndian.PutUint16(raw[2*i:], v)
		}
	}
	return raw
}

// ---------------------------------------------------------------------------------------------
// connection

var vfInitialFrameLogIntervalFirstMin, vfInitialFrameLogInterval = frameLogIntervalFirstMin, frameLogInterval

func vfResetGlobals() {
	// a previous case may have ended in a (recovered) panic inside frame processing, i.e. with the snapshot
	// mutex held: in the daemon that is a crash, here the next case starts from a fresh mutex
	mu = sync.Mutex{}
	mu.Lock()
	processor = nil
	headerInfo = nil
	previousSnapshotID = 0
	previousSnapshotTime = time.Time{}
	mu.Unlock()
	frameLogIntervalFirstMin, frameLogInterval = vfInitialFrameLogIntervalFirstMin, vfInitialFrameLogInterval
}

var vfLogOnce sync.Once

func vfQuietLogs() {
	vfLogOnce.Do(func() {
		if os.Getenv("VERIF_VERBOSE") == "" {
			log.SetOutput(io.Discard)
		}
	})
}

type vfConn struct {
	client    net.Conn
	done      chan error
	lastMilli int64
	stalled   time.Duration
	fast      bool // no waiting for a new millisecond between frames: recordings may start and finish within one
}

// vfStartConn parses the config in dir and runs handleConn on one end of a pipe.
func vfStartConn(dir string) (*vfConn, *Config, error) {
	vfQuietLogs()
	conf, err := ParseConfig(dir)
	if err != nil {
		return nil, nil, err
	}
	return vfStartConnWith(conf), conf, nil
}

func vfPipe() (net.Conn, net.Conn) { return net.Pipe() }

func vfStartConnWith(conf *Config) *vfConn {
	server, client := net.Pipe()
	c := &vfConn{client: client, done: make(chan error, 1)}
	go func() {
		defer func() {
			if p := recover(); p != nil {
				c.done <- fmt.Errorf("PANIC in handleConn: %v", p)
			}
		}()
		c.done <- handleConn(server, conf)
	}()
	return c
}

// Write sends bytes to handleConn. If handleConn has already returned (nobody reads any more) or does not
// take the bytes within 15 s the error says so instead of blocking forever.
func (c *vfConn) Write(b []byte) error {
	for len(b) > 0 {
		c.client.SetWriteDeadline(time.Now().Add(250 * time.Millisecond))
		n, err := c.client.Write(b)
		b = b[n:]
		if err == nil {
			continue
		}
		if ne, ok := err.(net.Error); ok && ne.Timeout() {
			select {
			case herr := <-c.done:
				c.done <- herr
				return fmt.Errorf("handleConn returned before the stream ended: %v", herr)
			default:
			}
			c.stalled += 250 * time.Millisecond
			if c.stalled > 15*time.Second {
				return fmt.Errorf("handleConn stopped reading for 15s")
			}
			continue
		}
		return err
	}
	c.stalled = 0
	return nil
}

// SendFrame writes one frame in lock step: everything but the last byte (this returns only once the
// previous frame has been processed completely), runs atBarrier, makes sure the wall clock has moved to a
// new millisecond (recording names are time.Now() to the millisecond), then releases the last byte.
func (c *vfConn) SendFrame(raw []byte, atBarrier func()) error {
	if err := c.Write(raw[:len(raw)-1]); err != nil {
		return err
	}
	if atBarrier != nil {
		atBarrier()
	}
	if c.fast {
		return c.Write(raw[len(raw)-1:])
	}
	for time.Now().UnixNano()/1e6 <= c.lastMilli {
		time.Sleep(200 * time.Microsecond)
	}
	c.lastMilli = time.Now().UnixNano() / 1e6
	// one more millisecond so that anything started while processing this frame is named later
	for time.Now().UnixNano()/1e6 <= c.lastMilli {
		time.Sleep(200 * time.Microsecond)
	}
	return c.Write(raw[len(raw)-1:])
}

// Barrier waits until everything sent so far has been processed, by sending the first byte of a
// would-be next frame... which cannot be taken back; so instead it is implemented by the callers sending a
// final padding frame in lock step. Close ends the connection and returns handleConn's error.
func (c *vfConn) Close() error {
	c.client.Close()
	select {
	case err := <-c.done:
		return err
	case <-time.After(20 * time.Second):
		return fmt.Errorf("handleConn did not return within 20s of the connection closing")
	}
}

// ---------------------------------------------------------------------------------------------
// reading recordings back

type vfFileFrame struct {
	TimeOnMs, LastFFCMs uint32
	TempC, LastFFCTempC float64
	Background          bool
	Pix                 []uint16
}

type vfFile struct {
	Name   string
	Frames []vfFileFrame
	R      *cptv.Reader
	NumHdr int
}

func vfReadCPTV(path string) (*vfFile, error) {
	b, err := os.ReadFile(path)
	if err != nil {
		return nil, err
	}
	r, err := cptv.NewReader(bytes.NewReader(b))
	if err != nil {
		return nil, fmt.Errorf("header: %v", err)
	}
	f := &vfFile{Name: filepath.Base(path), R: r, NumHdr: int(r.NumFrames())}
	for {
		fr := r.EmptyFrame()
		err := r.ReadFrame(fr)
		if err == io.EOF {
			break
		}
		if err != nil {
			return f, fmt.Errorf("frame %d: %v", len(f.Frames), err)
		}
		ff := vfFileFrame{
			TimeOnMs: uint32(fr.Status.TimeOn / time.Millisecond), LastFFCMs: uint32(fr.Status.LastFFCTime / time.Millisecond),
			TempC: fr.Status.TempC, LastFFCTempC: fr.Status.LastFFCTempC, Background: fr.Status.BackgroundFrame,
		}
		for _, row := range fr.Pix {
			ff.Pix = append(ff.Pix, row...)
		}
		f.Frames = append(f.Frames, ff)
	}
	if f.NumHdr != len(f.Frames) {
		return f, fmt.Errorf("header says %d frames, %d decoded", f.NumHdr, len(f.Frames))
	}
	return f, nil
}

// vfListDir returns the names in dir (sorted), directories with a trailing slash.
func vfListDir(dir string) []string {
	ents, err := os.ReadDir(dir)
	if err != nil {
		return nil
	}
	var out []string
	for _, e := range ents {
		n := e.Name()
		isDir := e.IsDir()
		if e.Type()&os.ModeSymlink != 0 {
			if fi, err := os.Stat(filepath.Join(dir, n)); err == nil && fi.IsDir() {
				isDir = true
			}
		}
		if isDir {
			n += "/"
		}
		out = append(out, n)
	}
	sort.Strings(out)
	return out
}

func vfFlatten(f *cptvframe.Frame) []uint16 {
	var out []uint16
	for _, row := range f.Pix {
		out = append(out, row...)
	}
	return out
}

// vfScratchDir is where the cases create their output directories.
func vfScratchDir() string {
	if d := os.Getenv("VERIF_SCRATCH"); d != "" {
		return d
	}
	return os.TempDir()
}

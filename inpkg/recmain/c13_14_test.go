//go:build verif

package main

import (
	"strconv"
	"bytes"
	"encoding/binary"
	"errors"
	"fmt"
	"log"
	"os"
	"path/filepath"
	"strings"
	"sync"
	"syscall"
	"testing"
	"time"

	"github.com/TheCacophonyProject/go-cptv/cptvframe"
	"github.com/TheCacophonyProject/lepton3"
	"pgregory.net/rapid"
	kit "verifkit"
)

// ---------------------------------------------------------------------------------------------
// C13 (parser part): both raw formats; bad frame <=> a zero pixel outside the edge border.

type vfParseCase struct {
	Boson bool     `json:"boson"`
	W, H  int
	Edge  int      `json:"edge"`
	Pix   []uint16 `json:"pix"`
	Tele  []uint16 `json:"tele"` // 320 telemetry words (Lepton)
}

func vfGenParse(t *rapid.T) vfParseCase {
	c := vfParseCase{Boson: rapid.Bool().Draw(t, "boson")}
	c.W = rapid.IntRange(2, 16).Draw(t, "w")
	c.H = rapid.IntRange(2, 12).Draw(t, "h")
	c.Edge = rapid.IntRange(0, 3).Draw(t, "edge")
	c.Pix = make([]uint16, c.W*c.H)
	mode := rapid.IntRange(0, 2).Draw(t, "mode")
	for i := range c.Pix {
		switch mode {
		case 0:
			c.Pix[i] = uint16(rapid.IntRange(1, 65535).Draw(t, "v"))
		case 1:
			c.Pix[i] = rapid.SampledFrom([]uint16{1, 255, 256, 0x00ff, 0xff00, 0x0100, 65535, 3000}).Draw(t, "v")
		default:
			c.Pix[i] = uint16(3000 + i)
		}
	}
	// plant zeros, with emphasis on the border / interior boundary
	nz := rapid.IntRange(0, 3).Draw(t, "nzero")
	for i := 0; i < nz; i++ {
		e := c.Edge
		xs := []int{0, e - 1, e, e + 1, c.W - e - 2, c.W - e - 1, c.W - e, c.W - 1, rapid.IntRange(0, c.W-1).Draw(t, "x")}
		ys := []int{0, e - 1, e, e + 1, c.H - e - 2, c.H - e - 1, c.H - e, c.H - 1, rapid.IntRange(0, c.H-1).Draw(t, "y")}
		x, y := rapid.SampledFrom(xs).Draw(t, "zx"), rapid.SampledFrom(ys).Draw(t, "zy")
		if x >= 0 && x < c.W && y >= 0 && y < c.H {
			c.Pix[y*c.W+x] = 0
		}
	}
	if !c.Boson {
		c.Tele = make([]uint16, 320)
		for i := range c.Tele {
			if rapid.IntRange(0, 3).Draw(t, "tz") == 0 {
				c.Tele[i] = uint16(rapid.IntRange(0, 65535).Draw(t, "tw"))
			}
		}
		// the words that matter, with boundary values
		for _, i := range []int{1, 2, 3, 4, 20, 21, 22, 24, 29, 30, 31} {
			c.Tele[i] = rapid.SampledFrom([]uint16{0, 1, 27315, 27314, 30000, 65535, 0x8000, 0x00ff, 0xff00}).Draw(t, "tb")
		}
	}
	return c
}

func vfRunParse(c vfParseCase) *kit.Result {
	r := &kit.Result{}
	if c.W < 1 || c.H < 1 || c.W > 64 || c.H > 64 || c.Edge < 0 || len(c.Pix) != c.W*c.H || (!c.Boson && len(c.Tele) != 320) {
		r.Failf("malformed case")
		return r
	}
	var raw []byte
	model := "boson"
	if c.Boson {
		raw = make([]byte, 2*c.W*c.H)
		for i, v := range c.Pix {
			raw[2*i], raw[2*i+1] = byte(v), byte(v>>8) // little-endian
		}
	} else {
		model = lepton3.Model
		raw = make([]byte, 640+2*c.W*c.H)
		for i, v := range c.Tele {
			raw[2*i], raw[2*i+1] = byte(v>>8), byte(v)
		}
		for i, v := range c.Pix {
			raw[640+2*i], raw[640+2*i+1] = byte(v>>8), byte(v) // big-endian
		}
	}
	parse := frameParser("flir", model)
	if parse == nil {
		r.Failf("no parser for flir %s", model)
		return r
	}
	out := cptvframe.NewFrame(vfCam{c.W, c.H, 9})
	// the processor hands the parser a re-used slot of the ring buffer: it holds an older frame
	for y := range out.Pix {
		for x := range out.Pix[y] {
			out.Pix[y][x] = 0xA5A5
		}
	}
	out.Status.TimeOn, out.Status.FrameCount = 12345, 999
	err := parse(raw, out, c.Edge)
	// independent predicate
	wantBad := false
	nearBoundary := false
	for p, v := range c.Pix {
		x, y := p%c.W, p/c.W
		border := x < c.Edge || y < c.Edge || x >= c.W-c.Edge || y >= c.H-c.Edge
		if v == 0 && !border {
			wantBad = true
		}
		if v == 0 && (x == c.Edge || y == c.Edge || x == c.W-c.Edge-1 || y == c.H-c.Edge-1 || x == c.Edge-1 || y == c.Edge-1 || x == c.W-c.Edge || y == c.H-c.Edge) {
			nearBoundary = true
		}
	}
	var bfe *lepton3.BadFrameErr
	isBad := errors.As(err, &bfe)
	if err != nil && !isBad {
		r.Failf("parser returned %T (%v), not a bad-frame error", err, err)
		return r
	}
	if isBad != wantBad {
		r.Failf("%s %dx%d edge %d: bad frame reported=%v, but a zero pixel outside the edge border exists=%v (pixels %v)", model, c.W, c.H, c.Edge, isBad, wantBad, c.Pix)
		return r
	}
	if !wantBad {
		if got := vfFlatten(out); fmt.Sprint(got) != fmt.Sprint(c.Pix) {
			r.Failf("%s frame not decoded pixel-exactly: got %v, sent %v", model, got, c.Pix)
			return r
		}
		if !c.Boson {
			w := c.Tele
			u32 := func(i int) uint32 { return uint32(w[i]) | uint32(w[i+1])<<16 }
			wantOn := time.Duration(u32(1)) * time.Millisecond
			wantFFC := time.Duration(u32(30)) * time.Millisecond
			wantCount := int(u32(20))
			wantT := float64(int(w[24])-27315) / 100
			wantTF := float64(int(w[29])-27315) / 100
			s := out.Status
			if s.TimeOn != wantOn || s.LastFFCTime != wantFFC || s.FrameCount != wantCount || s.TempC != wantT || s.LastFFCTempC != wantTF || s.FrameMean != w[22] {
				r.Failf("Lepton telemetry not decoded faithfully: got time-on %v last-FFC %v count %d temp %v/%v mean %d; words say %v %v %d %v/%v %d",
					s.TimeOn, s.LastFFCTime, s.FrameCount, s.TempC, s.LastFFCTempC, s.FrameMean, wantOn, wantFFC, wantCount, wantT, wantTF, w[22])
				return r
			}
		}
	}
	if c.Boson {
		r.Class("boson")
	} else {
		r.Class("lepton")
	}
	if wantBad {
		r.Class("bad")
	}
	r.NT = nearBoundary
	return r
}

func TestVF_C13_Parser(t *testing.T) {
	kit.Drive(t, "C13", "TestVF_C13_Parser",
		"generated: raw Lepton (big-endian pixels after 320 telemetry words) and Boson (little-endian) frames of 2x2..16x12, edge-pixels 0-3 (also wider than the image), arbitrary and byte-order-revealing pixel values, zero pixels planted on and next to the border/interior boundary, arbitrary telemetry words. Oracle: the parser selected by frameParser reports a bad frame (errors.As *lepton3.BadFrameErr) iff some pixel outside the edge border is zero (independent predicate); valid frames decode pixel-exactly and the Lepton telemetry (time-on, last-FFC time, frame count, FPA temperatures, frame mean) equals an independent decode of the words. Non-trivial: a zero exactly on the last border row/column or the first interior row/column.",
		vfGenParse, vfRunParse)
}

// ---------------------------------------------------------------------------------------------
// socket-level streams: frames, bad frames and 'clear' markers through the real handleConn

const (
	vfItFrame = 0 // valid frame; On toggles the programmed pixel
	vfItBad   = 1 // frame with a zero interior pixel
	vfItClear = 2 // 5-byte 'clear' marker
)

type vfItem struct {
	K  int  `json:"k"`
	On bool `json:"on,omitempty"` // motion wanted: the programmed pixel toggles
	// P (valid frames of a Boson with edge-pixels 1 only; the first three pixels are border pixels there): the
	// frame's first bytes resemble the marker. 1: "clear"; 2: "cleaR"; 3: "clear" from the second byte; 4: "CLEAR"
	P int `json:"p,omitempty"`
}

const vfKnownMarkerFrame = "D19-frame-beginning-with-marker-bytes"

func vfKnownEnabled(key string) bool {
	for _, k := range strings.Split(os.Getenv("VERIF_KNOWN"), ",") {
		if k == key {
			return true
		}
	}
	return false
}

func (c vfSockCase) prefixable() bool { return c.Cam.Model == "boson" && c.Edge == 1 }

// vfApplyPrefix overwrites the first bytes of a raw Boson frame (little-endian pixels) and keeps pix in step.
func vfApplyPrefix(raw []byte, pix []uint16, p int) {
	var b []byte
	off := 0
	switch p {
	case 1:
		b = []byte("clear")
	case 2:
		b = []byte("cleaR")
	case 3:
		b, off = []byte("clear"), 1
	case 4:
		b = []byte("CLEAR")
	default:
		return
	}
	copy(raw[off:], b)
	for i := 0; i < 3; i++ {
		pix[i] = binary.LittleEndian.Uint16(raw[2*i:])
	}
}

type vfSockCase struct {
	Cam      vfCamDesc `json:"cam"`
	Min, Max int
	Prev     int
	Trigger  int
	Edge     int
	Cont     bool     `json:"cont"`
	Items    []vfItem `json:"items"`
	Chunks   []int    `json:"chunks"` // segment sizes (cycled); empty = lock step per frame
	// Fast: the sender does not wait for a new wall-clock millisecond between frames, so a recording can end and
	// the next one start within the millisecond their names are stamped with
	Fast bool `json:"fast,omitempty"`
	// OutName: name of the output directory below the scratch directory ("" = "out"); may contain the
	// extensions the recorder uses for its own files
	OutName string `json:"out_name,omitempty"`
	// OutLink: 1 = the output directory is a symbolic link to the real directory; 2 = its constant-recordings
	// sub-directory is one
	OutLink int `json:"out_link,omitempty"`
	// Tail: the connection dies inside a frame: this many bytes (at most all but one) of one more frame, different
	// from the last complete one, are sent before the connection closes. It must not be delivered.
	Tail int `json:"tail,omitempty"`
	// Wide: motion settings that a fixed-threshold detector ignores are written out with five digits (a longer
	// motion-configuration text in the recordings' headers)
	Wide bool `json:"wide,omitempty"`
	// SilenceAt/SilenceBytes/SilenceMs (lock-step streams): before item SilenceAt (1-based; a frame or a marker)
	// the sender first delivers SilenceBytes bytes of it, goes silent for SilenceMs, then carries on
	SilenceAt    int `json:"silence_at,omitempty"`
	SilenceBytes int `json:"silence_bytes,omitempty"`
	SilenceMs    int `json:"silence_ms,omitempty"`
}

func (c vfSockCase) motionConf() vfMotionOv {
	if c.Wide {
		return vfWideMotion(c.Trigger, c.Edge)
	}
	return vfSimpleMotion(c.Trigger, c.Edge)
}

// makeOut creates the output directory of the case below dir and returns its path (as written to config.toml).
func (c vfSockCase) makeOut(dir string) string {
	out := c.outDir(dir)
	switch c.OutLink {
	case 1:
		real := filepath.Join(dir, "real-out")
		os.MkdirAll(real, 0755)
		os.MkdirAll(filepath.Dir(out), 0755)
		if err := os.Symlink(real, out); err != nil {
			panic(err)
		}
	case 2:
		os.MkdirAll(out, 0755)
		real := filepath.Join(dir, "real-constant")
		os.MkdirAll(real, 0755)
		if err := os.Symlink(real, filepath.Join(out, "constant-recordings")); err != nil {
			panic(err)
		}
	default:
		os.MkdirAll(out, 0755)
	}
	return out
}

var vfOutNames = []string{"", "", "", "rec.temp", "a.cptv.temp.d", "spool.temp/recordings", "x y", "cptv", "constant-recordings", "usb[1]/cptv", "a*b?c", "back\\slash", "cptv [spool", "trail\\"}

func (c vfSockCase) outDir(dir string) string {
	n := c.OutName
	if n == "" {
		n = "out"
	}
	return filepath.Join(dir, filepath.FromSlash(n))
}

type vfLogBuf struct {
	mu sync.Mutex
	b  bytes.Buffer
}

func (l *vfLogBuf) Write(p []byte) (int, error) {
	l.mu.Lock()
	defer l.mu.Unlock()
	return l.b.Write(p)
}
func (l *vfLogBuf) String() string {
	l.mu.Lock()
	defer l.mu.Unlock()
	return l.b.String()
}

func vfDiskRoomy(dir string) bool {
	var fs syscall.Statfs_t
	if syscall.Statfs(dir, &fs) != nil || fs.Blocks == 0 {
		return false
	}
	return (fs.Bavail*100)/fs.Blocks > 40 // the continuous recorder prunes recordings at <= 30 % free
}

type vfSockOut struct {
	err       string   // infrastructure / violation message
	motion    [][]int  // frame ids per finished motion file (output dir)
	cont      [][]int  // frame ids per finished continuous file
	contPix   [][]uint16
	sentPix   map[int][]uint16
	logs      string
	connErr   error
	tempLeft  []string
	accepted  int
}

// vfSockPixels: frame id in pixel (0,0)+(1,0) is not possible with an edge of 0, so the id travels in the
// time-on telemetry (Lepton) and, for Boson, in two interior pixels of small amplitude.
func vfSockFrame(c vfSockCase, id int, level bool, bad bool) ([]byte, []uint16) {
	n := c.Cam.W * c.Cam.H
	pix := make([]uint16, n)
	for p := range pix {
		x, y := p%c.Cam.W, p/c.Cam.W
		pix[p] = uint16(2000 + (x*3+y*5)%17)
		if x < c.Edge || y < c.Edge || x >= c.Cam.W-c.Edge || y >= c.Cam.H-c.Edge {
			pix[p] = uint16((p + id) % 3) // border: zeros included
		}
	}
	at := func(dx, dy int) int { return (c.Edge+dy)*c.Cam.W + c.Edge + dx }
	if level {
		pix[at(0, 0)] = 2000 + 51
	} else {
		pix[at(0, 0)] = 2000
	}
	// id in two interior pixels with amplitude <= delta-thresh (cannot create motion): base-40 digits
	pix[at(1, 0)] = uint16(2000 + id%40)
	pix[at(2, 0)] = uint16(2000 + (id/40)%40)
	if bad {
		// a zero on the first row inside the edge border (the outermost row when edge-pixels is 0)
		pix[at(3, 0)] = 0
	}
	return vfRawFrame(c.Cam, pix, uint32(60000+111*id), 0, uint32(id)), pix
}

func vfSockID(c vfSockCase, pix []uint16) int {
	at := func(dx, dy int) int { return (c.Edge+dy)*c.Cam.W + c.Edge + dx }
	return int(pix[at(1, 0)]-2000) + 40*int(pix[at(2, 0)]-2000)
}

func vfSockValid(c vfSockCase) string {
	cam := c.Cam
	if cam.W < 8 || cam.H < 6 || cam.W > 40 || cam.H > 40 || c.Edge < 0 || c.Edge > 2 || cam.FPS < 1 || cam.FPS > 30 {
		return "bad geometry"
	}
	if c.Min < 0 || c.Max < c.Min || c.Prev < 0 || c.Trigger < 0 || c.Prev*cam.FPS+c.Trigger < 1 || len(c.Items) > 1500 {
		return "configuration outside the domain"
	}
	for _, it := range c.Items {
		if it.P < 0 || it.P > 4 {
			return "bad prefix kind"
		}
	}
	okName := false
	for _, n := range vfOutNames {
		okName = okName || n == c.OutName
	}
	if !okName || c.OutLink < 0 || c.OutLink > 2 {
		return "output directory name outside the list"
	}
	if cam.Brand != "flir" || (cam.Model != "lepton3" && cam.Model != "lepton3.5" && cam.Model != "boson") {
		return "unsupported camera"
	}
	return ""
}

// vfRunSock drives handleConn with the items, chunked as requested, and decodes the output directory.
func vfRunSock(c vfSockCase) *vfSockOut {
	o := &vfSockOut{sentPix: map[int][]uint16{}}
	dir, err := os.MkdirTemp(os.Getenv("VERIF_SCRATCH"), "sock-")
	if err != nil {
		panic(err)
	}
	defer os.RemoveAll(dir)
	out := c.makeOut(dir)
	conf := vfConf{DeviceName: "sock", Min: c.Min, Max: c.Max, Prev: c.Prev, Cont: c.Cont, MinDiskMB: 1, BucketS: 600, RefillS: 600,
		WinStart: "12:00", WinEnd: "12:00", Motion: c.motionConf()}
	if err := vfWriteConfig(dir, out, conf); err != nil {
		panic(err)
	}
	vfResetGlobals()
	vfQuietLogs()
	lb := &vfLogBuf{}
	log.SetOutput(lb)
	defer func() {
		if os.Getenv("VERIF_VERBOSE") == "" {
			log.SetOutput(discard{})
		}
	}()
	conn, _, err := vfStartConn(dir)
	if err != nil {
		o.err = fmt.Sprintf("ParseConfig: %v", err)
		return o
	}
	log.SetOutput(lb) // vfStartConn may have redirected it
	conn.fast = c.Fast
	level := false
	id := 0
	type seg struct {
		b        []byte
		frameEnd bool
	}
	var segs []seg
	segs = append(segs, seg{vfHeaderBytes(c.Cam), false})
	for _, it := range c.Items {
		switch it.K {
		case vfItFrame:
			if it.On {
				level = !level
			}
			raw, pix := vfSockFrame(c, id, level, false)
			if it.P > 0 && c.prefixable() {
				vfApplyPrefix(raw, pix, it.P)
			}
			o.sentPix[id] = pix
			id++
			segs = append(segs, seg{raw, true})
		case vfItBad:
			raw, _ := vfSockFrame(c, 1599, !level, true)
			segs = append(segs, seg{raw, true})
		case vfItClear:
			segs = append(segs, seg{[]byte("clear"), false})
		}
	}
	o.accepted = id
	if len(c.Chunks) == 0 {
		for si, s := range segs {
			var err error
			if c.SilenceMs > 0 && si == c.SilenceAt && si > 0 {
				n := c.SilenceBytes
				if n > len(s.b)-1 {
					n = len(s.b) - 1
				}
				if n > 0 {
					err = conn.Write(s.b[:n])
					s.b = s.b[n:]
				}
				time.Sleep(time.Duration(c.SilenceMs) * time.Millisecond)
			}
			if err != nil {
			} else if s.frameEnd {
				err = conn.SendFrame(s.b, nil)
			} else {
				err = conn.Write(s.b)
			}
			if err != nil {
				o.connErr = conn.Close()
				o.err = fmt.Sprintf("stream could not be delivered: %v; handleConn: %v", err, o.connErr)
				o.logs = lb.String()
				return o
			}
		}
	} else {
		// arbitrary segmentation of the whole byte stream: a write may end anywhere (inside the header, inside a
		// marker, inside the first bytes of a frame) and may carry the end of one frame together with the beginning
		// of the next item, but never two frame ends; after a write that completes a frame the sender waits for a
		// new millisecond (recording names are time.Now() to the millisecond)
		var stream []byte
		var ends []int // offsets just past each frame end
		for _, s := range segs {
			stream = append(stream, s.b...)
			if s.frameEnd {
				ends = append(ends, len(stream))
			}
		}
		pos, ci, ei := 0, 0, 0
		for pos < len(stream) {
			n := c.Chunks[ci%len(c.Chunks)]
			ci++
			if n < 1 {
				n = 1
			}
			end := pos + n
			if end > len(stream) {
				end = len(stream)
			}
			for ei < len(ends) && ends[ei] <= pos {
				ei++
			}
			if ei+1 < len(ends) && end >= ends[ei+1] {
				end = ends[ei+1] - 1 // stop short of a second frame end
			}
			if err := conn.Write(stream[pos:end]); err != nil {
				o.connErr = conn.Close()
				o.err = fmt.Sprintf("stream could not be delivered: %v; handleConn: %v", err, o.connErr)
				o.logs = lb.String()
				return o
			}
			if ei < len(ends) && end >= ends[ei] && !c.Fast {
				t0 := time.Now().UnixNano() / 1e6
				for time.Now().UnixNano()/1e6 <= t0+1 {
					time.Sleep(200 * time.Microsecond)
				}
			}
			pos = end
		}
	}
	if c.Tail > 0 {
		raw, _ := vfSockFrame(c, (id+7)%1500, !level, false)
		n := c.Tail
		if n > len(raw)-1 {
			n = len(raw) - 1
		}
		if err := conn.Write(raw[:n]); err != nil {
			o.connErr = conn.Close()
			o.err = fmt.Sprintf("stream could not be delivered: %v; handleConn: %v", err, o.connErr)
			o.logs = lb.String()
			return o
		}
	}
	o.connErr = conn.Close()
	o.logs = lb.String()
	read := func(d string) ([][]int, [][]uint16, string) {
		var ids [][]int
		var firstPix [][]uint16
		for _, n := range vfListDir(d) {
			if strings.HasSuffix(n, ".cptv") {
				f, err := vfReadCPTV(filepath.Join(d, n))
				if err != nil {
					return nil, nil, fmt.Sprintf("finished recording %s does not decode: %v", n, err)
				}
				var l []int
				for i, fr := range f.Frames {
					if i == 0 {
						if !fr.Background {
							return nil, nil, fmt.Sprintf("recording %s does not start with a background frame", n)
						}
						continue
					}
					fid := vfSockID(c, fr.Pix)
					l = append(l, fid)
					if want, ok := o.sentPix[fid]; !ok || fmt.Sprint(want) != fmt.Sprint(fr.Pix) {
						return nil, nil, fmt.Sprintf("recording %s: frame %d (id %d) is not pixel-identical to any frame that was sent", n, i, fid)
					}
					if c.Cam.lepton() && fr.TimeOnMs != uint32(60000+111*fid) {
						return nil, nil, fmt.Sprintf("recording %s: frame id %d carries time-on %d ms", n, fid, fr.TimeOnMs)
					}
				}
				ids = append(ids, l)
			} else if !strings.HasSuffix(n, "/") {
				o.tempLeft = append(o.tempLeft, n)
			}
		}
		return ids, firstPix, ""
	}
	var msg string
	o.motion, _, msg = read(out)
	if msg != "" {
		o.err = msg
		return o
	}
	if c.Cont {
		o.cont, _, msg = read(filepath.Join(out, "constant-recordings"))
		if msg != "" {
			o.err = msg
		}
	}
	return o
}

type discard struct{}

func (discard) Write(p []byte) (int, error) { return len(p), nil }

// vfSockModel predicts the recordings from the items: with the simple detector configuration the motion
// bit of a frame is 'the programmed pixel toggled against the previous accepted frame', forced to false on
// the first frame of the stream and after every 'clear'.
func vfSockModel(c vfSockCase) kit.MResult {
	var evs []kit.MEvent
	first := true
	for _, it := range c.Items {
		switch it.K {
		case vfItFrame:
			evs = append(evs, kit.MEvent{Kind: kit.MEvFrame, Motion: it.On && !first, WinOpen: true})
			first = false
		case vfItBad:
			evs = append(evs, kit.MEvent{Kind: kit.MEvBad})
		case vfItClear:
			evs = append(evs, kit.MEvent{Kind: kit.MEvReset})
			first = true
		}
	}
	return kit.RunModel(kit.MConfig{PreTrigger: c.Prev*c.Cam.FPS + c.Trigger - 1, Trigger: c.Trigger, MinFrames: c.Min * c.Cam.FPS, MaxFrames: c.Max * c.Cam.FPS, Continuous: c.Cont}, evs)
}

func vfGenSockBase(t *rapid.T, bad, clear bool) vfSockCase {
	c := vfSockCase{}
	c.Cam = vfCamDesc{Brand: "flir", Firmware: "1.2.3", Serial: 77}
	c.Cam.Model = rapid.SampledFrom([]string{"lepton3", "lepton3.5", "boson"}).Draw(t, "model")
	c.Cam.W = rapid.IntRange(8, 14).Draw(t, "w")
	c.Cam.H = rapid.IntRange(6, 10).Draw(t, "h")
	c.Cam.FPS = rapid.SampledFrom([]int{2, 3, 5, 9}).Draw(t, "fps")
	c.Edge = rapid.IntRange(0, 1).Draw(t, "edge")
	c.Prev = rapid.IntRange(0, 1).Draw(t, "prev")
	c.Min = rapid.IntRange(1, 2).Draw(t, "min") // >= 1 s so that two recordings never start within a millisecond
	c.Max = c.Min + rapid.IntRange(0, 2).Draw(t, "maxx")
	c.Trigger = rapid.IntRange(1, 2).Draw(t, "trigger")
	c.Fast = rapid.IntRange(0, 2).Draw(t, "fast") == 0
	if rapid.IntRange(0, 39).Draw(t, "longpreview") == 0 {
		// a pre-trigger buffer of more than 255 seconds (at 1 fps, so that the stream stays short): a long quiet
		// lead-in, then motion
		c.Cam.FPS = 1
		c.Prev = rapid.IntRange(254, 300).Draw(t, "prevlong")
		c.Fast = true
		for i := c.Prev + rapid.IntRange(0, 30).Draw(t, "leadin"); i > 0; i-- {
			c.Items = append(c.Items, vfItem{K: vfItFrame})
		}
		c.Items = append(c.Items, vfItem{K: vfItFrame, On: true}, vfItem{K: vfItFrame, On: true}, vfItem{K: vfItFrame, On: true})
	}
	c.OutName = rapid.SampledFrom(vfOutNames).Draw(t, "outname")
	c.OutLink = rapid.SampledFrom([]int{0, 0, 0, 0, 1, 2}).Draw(t, "outlink")
	c.Tail = rapid.SampledFrom([]int{0, 0, 0, 1, 4, 5, 6, 64, 1 << 20}).Draw(t, "tail")
	c.Wide = rapid.IntRange(0, 2).Draw(t, "wide") == 0
	nseg := rapid.IntRange(2, 8).Draw(t, "nseg")
	for s := 0; s < nseg; s++ {
		switch rapid.IntRange(0, 6).Draw(t, "seg") {
		case 0, 1:
			for i := rapid.IntRange(1, 12).Draw(t, "still"); i > 0; i-- {
				c.Items = append(c.Items, vfItem{K: vfItFrame})
			}
		case 2, 3:
			for i := rapid.IntRange(1, 2*c.Cam.FPS).Draw(t, "moving"); i > 0; i-- {
				c.Items = append(c.Items, vfItem{K: vfItFrame, On: true})
			}
		case 4:
			if bad {
				for i := rapid.IntRange(1, 2).Draw(t, "nbad"); i > 0; i-- {
					c.Items = append(c.Items, vfItem{K: vfItBad})
				}
			} else {
				c.Items = append(c.Items, vfItem{K: vfItFrame, On: true})
			}
		case 5:
			if clear {
				for i := rapid.SampledFrom([]int{1, 1, 1, 2, 3}).Draw(t, "nclear"); i > 0; i-- {
					c.Items = append(c.Items, vfItem{K: vfItClear})
				}
				// the frame after a clear often differs from the one before it: it must not count as motion
				c.Items = append(c.Items, vfItem{K: vfItFrame, On: rapid.Bool().Draw(t, "afterclear")})
			} else {
				c.Items = append(c.Items, vfItem{K: vfItFrame})
			}
		case 6:
			for i := rapid.IntRange(2, 10).Draw(t, "alt"); i > 0; i-- {
				c.Items = append(c.Items, vfItem{K: vfItFrame, On: i%2 == 0})
			}
		}
	}
	return c
}

func vfIDsString(l [][]int) string { return fmt.Sprint(l) }

func vfModelIDs(recs []kit.MRecording, finishedOnly bool) [][]int {
	var out [][]int
	for _, r := range recs {
		if finishedOnly && r.Open {
			continue
		}
		out = append(out, r.IDs)
	}
	return out
}

// C13 (socket part)
func vfGenC13Sock(t *rapid.T) vfSockCase {
	c := vfGenSockBase(t, true, false)
	c.Cont = rapid.Bool().Draw(t, "cont")
	if rapid.IntRange(0, 3).Draw(t, "chunked") == 0 {
		c.Chunks = rapid.SliceOfN(rapid.SampledFrom([]int{1, 3, 7, 64, 500, 5000}), 1, 4).Draw(t, "chunks")
	}
	// make sure bad frames occur, also inside a motion run
	at := rapid.IntRange(0, len(c.Items)).Draw(t, "badat")
	run := []vfItem{{K: vfItFrame}, {K: vfItFrame, On: true}, {K: vfItFrame, On: true}, {K: vfItBad}, {K: vfItFrame, On: true}, {K: vfItFrame, On: true}, {K: vfItFrame}}
	c.Items = append(c.Items[:at], append(run, c.Items[at:]...)...)
	if c.Fast {
		// recordings of a single frame back to back: a motion frame that starts one, a bad frame that ends it
		c.Items = append(c.Items, vfItem{K: vfItFrame})
		for i := rapid.IntRange(2, 12).Draw(t, "pairs"); i > 0; i-- {
			c.Items = append(c.Items, vfItem{K: vfItFrame, On: true}, vfItem{K: vfItBad})
		}
		c.Items = append(c.Items, vfItem{K: vfItFrame})
	}
	return c
}

func vfRunC13Sock(c vfSockCase) *kit.Result {
	r := &kit.Result{}
	if msg := vfSockValid(c); msg != "" {
		r.Failf("malformed case: %s", msg)
		return r
	}
	if c.Cont && !vfDiskRoomy(vfScratchDir()) {
		c.Cont = false
		r.Class("disk_low_continuous_skipped")
	}
	o := vfRunSock(c)
	if o.err != "" {
		r.Failf("%s", o.err)
		return r
	}
	if o.connErr == nil || !strings.Contains(o.connErr.Error(), "EOF") {
		r.Failf("handleConn did not survive the stream: it ended with %v, want EOF at the end", o.connErr)
		return r
	}
	m := vfSockModel(c)
	if got, want := vfIDsString(o.motion), vfIDsString(vfModelIDs(m.Motion, true)); got != want {
		r.Failf("finished motion recordings hold frames %s, want %s (bad frames end the recording in progress with a complete file, are in no file, and processing resumes)", got, want)
		return r
	}
	if c.Cont {
		if got, want := vfIDsString(o.cont), vfIDsString(vfModelIDs(m.Continuous, true)); got != want {
			r.Failf("finished continuous recordings hold frames %s, want %s", got, want)
			return r
		}
	}
	nbad := 0
	for _, it := range c.Items {
		if it.K == vfItBad {
			nbad++
		}
	}
	// the daemon's reaction to a bad frame: one report per bad frame (the event and the camera restart go
	// over D-Bus, which is absent here; the log line is what remains observable)
	if got := strings.Count(strings.ToLower(o.logs), "bad frame"); got != nbad {
		r.Failf("%d bad frames were sent, the daemon reported %d (log lines mentioning a bad frame)", nbad, got)
		return r
	}
	inRec := false
	for _, rec := range m.Motion {
		if rec.EndedBy == "bad-frame" {
			inRec = true
		}
	}
	if inRec {
		r.Class("bad_ends_recording")
	}
	r.Class("model=" + c.Cam.Model)
	if len(c.Chunks) > 0 {
		r.Class("chunked")
	}
	r.NT = inRec && len(o.motion) >= 2
	return r
}

func TestVF_C13_Socket(t *testing.T) {
	kit.Drive(t, "C13", "TestVF_C13_Socket",
		"generated: Lepton and Boson streams (8x6..14x10, fps 2-9) of valid frames (motion programmed through a toggling pixel) and bad frames (zero interior pixel) at generated positions incl. inside motion runs, through the real handleConn over a pipe (lock step or arbitrary segmentation), continuous recorder on/off. Oracle: handleConn survives to the end of the stream; the finished .cptv files decode, contain only frames that were sent pixel-exactly, and equal the reference model's recordings (bad frame ends the recording with a complete file, is in no file, later motion is recorded); one bad-frame report per bad frame. Non-trivial: a bad frame ended a recording and at least two files were finished.",
		vfGenC13Sock, vfRunC13Sock)
}

// C14 (socket part)
func vfGenC14Sock(t *rapid.T) vfSockCase {
	c := vfGenSockBase(t, false, true)
	c.Cont = true
	if rapid.IntRange(0, 4).Draw(t, "lockstep") > 0 {
		c.Chunks = rapid.SliceOfN(rapid.SampledFrom([]int{1, 1, 2, 3, 4, 5, 6, 7, 64, 333, 4096, 100000}), 1, 5).Draw(t, "chunks")
	}
	// markers at the very start and at the end, too
	if rapid.Bool().Draw(t, "clearfirst") {
		c.Items = append([]vfItem{{K: vfItClear}}, c.Items...)
	}
	if rapid.Bool().Draw(t, "clearlast") {
		c.Items = append(c.Items, vfItem{K: vfItClear})
	}
	if c.prefixable() && rapid.Bool().Draw(t, "prefixed") {
		// frames whose first bytes resemble the marker; rarely the marker's five bytes themselves
		kinds := []int{2, 3, 4}
		if rapid.IntRange(0, 3).Draw(t, "fullmarker") == 0 {
			kinds = []int{1, 1, 2, 3, 4}
		}
		for i := range c.Items {
			if c.Items[i].K == vfItFrame && rapid.IntRange(0, 3).Draw(t, "pf") == 0 {
				c.Items[i].P = rapid.SampledFrom(kinds).Draw(t, "pkind")
			}
		}
	}
	// pad so that every frame of interest sits in a finished continuous file
	size := c.Max*c.Cam.FPS + 1
	n := 0
	for _, it := range c.Items {
		if it.K == vfItFrame {
			n++
		}
	}
	for n%size != 0 {
		c.Items = append(c.Items, vfItem{K: vfItFrame})
		n++
	}
	return c
}

// vfRunC14Sock: a case containing a frame that begins with the marker's five bytes fails on the code as it
// is (known finding D19). Such a failure is exempted only if the finding is listed as known and the very same
// case passes once those frames begin with "cleaR" instead - any other violation is still reported.
func vfRunC14Sock(c vfSockCase) *kit.Result {
	r := vfRunC14SockInner(c)
	hit := false
	for _, it := range c.Items {
		hit = hit || (it.K == vfItFrame && it.P == 1 && c.prefixable())
	}
	if !hit {
		return r
	}
	if r.Err == "" {
		r.Class("marker_prefixed_frame_delivered")
		return r
	}
	if !vfKnownEnabled(vfKnownMarkerFrame) {
		r.Err = "a frame whose first five bytes are \"clear\" was not delivered as a frame: " + r.Err
		return r
	}
	c2 := c
	c2.Items = append([]vfItem{}, c.Items...)
	for i := range c2.Items {
		if c2.Items[i].P == 1 {
			c2.Items[i].P = 2
		}
	}
	r2 := vfRunC14SockInner(c2)
	if r2.Err != "" {
		return r2
	}
	return &kit.Result{Known: []string{vfKnownMarkerFrame}, Classes: []string{"known_finding_marker_prefixed_frame"}}
}

func vfRunC14SockInner(c vfSockCase) *kit.Result {
	r := &kit.Result{}
	if msg := vfSockValid(c); msg != "" {
		r.Failf("malformed case: %s", msg)
		return r
	}
	for _, it := range c.Items {
		if it.K == vfItBad {
			r.Failf("malformed case: C14 streams contain valid frames and markers only")
			return r
		}
	}
	if c.Cont && !vfDiskRoomy(vfScratchDir()) {
		c.Cont = false
		r.Class("disk_low_continuous_skipped")
	}
	o := vfRunSock(c)
	if o.err != "" {
		r.Failf("%s", o.err)
		return r
	}
	if c.Tail > 0 {
		if o.connErr == nil || !strings.Contains(o.connErr.Error(), "EOF") {
			r.Failf("the connection died inside a frame; handleConn ended with %v, want an EOF error", o.connErr)
			return r
		}
		r.Class("connection_dies_inside_a_frame")
	} else if o.connErr == nil || !strings.Contains(o.connErr.Error(), "EOF") || strings.Contains(o.connErr.Error(), "unexpected") {
		r.Failf("handleConn ended with %v, want a clean EOF at a frame boundary (frame alignment lost?)", o.connErr)
		return r
	}
	m := vfSockModel(c)
	if c.Cont {
		// every frame exactly once, in order, pixel-exact (checked while decoding), whatever the segmentation
		next := 0
		for k, f := range o.cont {
			for _, id := range f {
				if id != next {
					r.Failf("continuous file %d delivers frame %d where frame %d is due: frames must be delivered exactly once and in order (files: %v)", k, id, next, o.cont)
					return r
				}
				next++
			}
		}
		if next != o.accepted {
			r.Failf("%d frames were sent, the finished continuous files hold %d", o.accepted, next)
			return r
		}
	}
	if got, want := vfIDsString(o.motion), vfIDsString(vfModelIDs(m.Motion, true)); got != want {
		r.Failf("finished motion recordings hold frames %s, want %s (each 'clear' ends the recording in progress and restarts detection: the frame after it is never motion)", got, want)
		return r
	}
	clears, cutByClear := 0, false
	for _, it := range c.Items {
		if it.K == vfItClear {
			clears++
		}
	}
	for _, rec := range m.Motion {
		if rec.EndedBy == "reset" {
			cutByClear = true
		}
	}
	if got := strings.Count(o.logs, "clearing motion buffer"); got != clears {
		r.Failf("%d 'clear' markers were sent, %d were recognised", clears, got)
		return r
	}
	inside := false
	for _, n := range c.Chunks {
		if n < 5 {
			inside = true
		}
	}
	if clears > 0 {
		r.Class("has_clear")
	}
	if cutByClear {
		r.Class("clear_ends_recording")
	}
	if len(c.Chunks) > 0 {
		r.Class("chunked")
	}
	r.NT = clears > 0 && inside
	return r
}

func TestVF_C14_Socket(t *testing.T) {
	kit.Drive(t, "C14", "TestVF_C14_Socket",
		"generated: a camera header followed by frames and 5-byte 'clear' markers (at the start, at the end, repeated back to back, between frames), cut into segments of generated sizes (1 byte .. larger than a frame, cuts inside the marker, inside the first 5 bytes of a frame and inside header lines) and written to the real handleConn over a pipe; continuous recorder on, padded so that every frame sits in a finished file. Oracle: handleConn ends with a clean EOF at a frame boundary; the continuous files contain every sent frame exactly once, in order, pixel-exact; the motion files equal the reference model in which each 'clear' ends the recording in progress and makes the next frame first-of-epoch; every marker is recognised; half of the streams end inside a frame (1 byte .. all but one byte of it), which must not be delivered. For a Boson with edge-pixels 1 half of the cases carry frames whose first bytes resemble the marker ('cleaR', 'CLEAR', 'clear' from the second byte: must be delivered as frames; the marker's five bytes themselves: known finding D19, exempted only if the same case passes with 'cleaR'). Non-trivial: at least one 'clear' and a segmentation with pieces shorter than the 5-byte marker.",
		vfGenC14Sock, vfRunC14Sock)
}

var _ = binary.LittleEndian

func FuzzVF_C13_Parser(f *testing.F) {
	kit.DriveFuzz(f, "C13", "FuzzVF_C13_Parser", "native coverage-guided fuzzing (go test -fuzz) of the byte stream behind the generator of TestVF_C13_Parser, same oracle", vfGenParse, vfRunParse)
}

// ---------------------------------------------------------------------------------------------
// C14, many reconnects: the camera daemon restarts (and reconnects) many times during the life of one
// recorder process; every connection must be served like the first one.

type vfReconnCase struct {
	FPS    int   `json:"fps"`
	Frames []int `json:"frames_per_connection"`
}

func vfGenReconn(t *rapid.T) vfReconnCase {
	c := vfReconnCase{FPS: rapid.SampledFrom([]int{1, 2, 4, 8, 9, 16, 30, 60}).Draw(t, "fps")}
	n := rapid.SampledFrom([]int{2, 5, 12, 25, 40, 70}).Draw(t, "connections")
	for i := 0; i < n; i++ {
		c.Frames = append(c.Frames, rapid.IntRange(0, 3).Draw(t, "frames"))
	}
	return c
}

func vfRunReconn(c vfReconnCase) *kit.Result {
	r := &kit.Result{}
	if c.FPS < 1 || c.FPS > 60 || len(c.Frames) < 1 || len(c.Frames) > 200 {
		r.Failf("malformed case")
		return r
	}
	dir, err := os.MkdirTemp(os.Getenv("VERIF_SCRATCH"), "reconn-")
	if err != nil {
		panic(err)
	}
	defer os.RemoveAll(dir)
	out := filepath.Join(dir, "out")
	os.Mkdir(out, 0755)
	sc := vfSockCase{Cam: vfCamDesc{Brand: "flir", Model: "lepton3", Firmware: "1.2.3", W: 8, H: 6, FPS: c.FPS, Serial: 5}, Min: 1, Max: 2, Trigger: 1, Edge: 1}
	conf := vfConf{DeviceName: "reconn", Min: 1, Max: 2, MinDiskMB: 1, BucketS: 600, RefillS: 600, WinStart: "12:00", WinEnd: "12:00", Motion: vfSimpleMotion(1, 1)}
	if err := vfWriteConfig(dir, out, conf); err != nil {
		panic(err)
	}
	vfResetGlobals()
	vfQuietLogs()
	parsed, err := ParseConfig(dir)
	if err != nil {
		r.Failf("ParseConfig: %v", err)
		return r
	}
	id := 0
	for k, n := range c.Frames {
		if n < 0 || n > 50 {
			r.Failf("malformed case")
			return r
		}
		// successive cameras differ: another model, resolution and frame size every other connection
		if k%2 == 1 {
			sc.Cam.Model, sc.Cam.W, sc.Cam.H = "boson", 10, 8
		} else {
			sc.Cam.Model, sc.Cam.W, sc.Cam.H = "lepton3", 8, 6
		}
		conn := vfStartConnWith(parsed)
		fail := func(format string, a ...interface{}) *kit.Result {
			r.Failf("camera connection %d of %d (%s %dx%d, fps %d): %s", k+1, len(c.Frames), sc.Cam.Model, sc.Cam.W, sc.Cam.H, c.FPS, fmt.Sprintf(format, a...))
			return r
		}
		if err := conn.Write(vfHeaderBytes(sc.Cam)); err != nil {
			return fail("header not accepted: %v; handleConn: %v", err, conn.Close())
		}
		for i := 0; i < n; i++ {
			raw, _ := vfSockFrame(sc, id%1500, false, false)
			id++
			if err := conn.SendFrame(raw, nil); err != nil {
				return fail("frame %d not accepted: %v; handleConn: %v", i, err, conn.Close())
			}
		}
		cerr := conn.Close()
		if cerr == nil || !strings.Contains(cerr.Error(), "EOF") || strings.Contains(cerr.Error(), "unexpected") {
			return fail("handleConn ended with %v, want a clean EOF", cerr)
		}
		mu.Lock()
		got := 0
		if processor != nil {
			got = int(processor.CurrentFrame)
		}
		mu.Unlock()
		if got != n {
			return fail("%d frames were sent, %d were delivered to the processor", n, got)
		}
		if n > 0 {
			// and the last one is what the processor holds, pixel for pixel
			_, pix := vfSockFrame(sc, (id-1)%1500, false, false)
			mu.Lock()
			_, f := processor.GetRecentFrame()
			mu.Unlock()
			if f == nil || fmt.Sprint(vfFlatten(f)) != fmt.Sprint(pix) {
				return fail("the last frame delivered to the processor is not the last frame sent (frame alignment lost?)")
			}
		}
	}
	r.Class(fmt.Sprintf("fps=%d", c.FPS))
	if len(c.Frames) >= 25 {
		r.Class("connections>=25")
	}
	r.NT = len(c.Frames) >= 25
	return r
}

func TestVF_C14_Reconnects(t *testing.T) {
	kit.Drive(t, "C14", "TestVF_C14_Reconnects",
		"generated: 2-70 successive camera connections to one recorder process (as after camera daemon restarts), each with a header and 0-3 frames, fps from {1,2,4,8,9,16,30,60}, alternating between two cameras of different model, resolution and frame size. Oracle: every connection is served like the first: the header is accepted, every frame is delivered to the processor exactly once, handleConn ends with a clean EOF, nothing panics. Non-trivial: at least 25 connections.",
		vfGenReconn, vfRunReconn)
}


// TestVF_C14_Silence: the camera daemon goes silent for a while (as it does while it restarts the camera) before
// a marker, before a frame or inside either, then carries on: alignment, delivery and the reset must be as ever.
func vfGenC14Silence(t *rapid.T) vfSockCase {
	c := vfSockCase{Cam: vfCamDesc{Brand: "flir", Firmware: "1.2.3", Serial: 77, W: 10, H: 8, FPS: 3}, Min: 1, Max: 2, Prev: 1, Trigger: 1, Edge: 1, Cont: true}
	c.Cam.Model = rapid.SampledFrom([]string{"lepton3", "boson"}).Draw(t, "model")
	// quiet, a motion recording in progress, the silence, then a marker and more frames
	for i := 0; i < 4; i++ {
		c.Items = append(c.Items, vfItem{K: vfItFrame})
	}
	c.Items = append(c.Items, vfItem{K: vfItFrame, On: true}, vfItem{K: vfItFrame, On: true})
	c.SilenceAt = len(c.Items) + 1 // segment 0 is the header
	if rapid.Bool().Draw(t, "beforemarker") {
		c.Items = append(c.Items, vfItem{K: vfItClear})
		c.SilenceBytes = rapid.SampledFrom([]int{0, 1, 4}).Draw(t, "markerbytes")
	} else {
		c.Items = append(c.Items, vfItem{K: vfItFrame, On: true}, vfItem{K: vfItClear})
		c.SilenceBytes = rapid.SampledFrom([]int{0, 1, 4, 5, 6, 80}).Draw(t, "framebytes")
	}
	for i := 0; i < 7; i++ {
		c.Items = append(c.Items, vfItem{K: vfItFrame, On: i == 3})
	}
	size := c.Max*c.Cam.FPS + 1
	n := 0
	for _, it := range c.Items {
		if it.K == vfItFrame {
			n++
		}
	}
	for n%size != 0 {
		c.Items = append(c.Items, vfItem{K: vfItFrame})
		n++
	}
	secs := 12
	if v, err := strconv.Atoi(os.Getenv("VERIF_SILENCE_S")); err == nil && v > 0 {
		secs = v
	}
	c.SilenceMs = secs*1000 + 500
	return c
}

func TestVF_C14_Silence(t *testing.T) {
	kit.Drive(t, "C14", "TestVF_C14_Silence", "generated: a stream with a motion recording in progress in which the sender goes silent for 12.5 s (65.5 s in the thorough tier) before or inside a 'clear' marker or a frame, then carries on; same oracle as TestVF_C14_Socket. Every case counts as non-trivial.",
		vfGenC14Silence, func(c vfSockCase) *kit.Result {
			r := vfRunC14SockInner(c)
			r.NT = true
			return r
		})
}

//go:build verif

package main

import (
	"fmt"
	"math"
	"os"
	"path/filepath"
	"strings"
	"testing"
	"time"

	goconfig "github.com/TheCacophonyProject/go-config"
	"github.com/TheCacophonyProject/go-cptv/cptvframe"
	"github.com/TheCacophonyProject/thermal-recorder/motion"
	"github.com/TheCacophonyProject/thermal-recorder/recorder"
	"github.com/TheCacophonyProject/window"
	yaml2 "gopkg.in/yaml.v2"
	"pgregory.net/rapid"
	kit "verifkit"
)

// C11: finished files decode to exactly the recorded frames, metadata and settings.

type vfPixMut struct {
	P int    `json:"p"`
	V uint16 `json:"v"`
}

type vfE2EFrame struct {
	On   bool       `json:"on,omitempty"` // the warm blob is present in this frame
	Mut  []vfPixMut `json:"mut,omitempty"`
	FPA  uint16     `json:"fpa,omitempty"`  // FPA temperature (centi-kelvin), Lepton telemetry
	FPAF uint16     `json:"fpaf,omitempty"` // FPA temperature at last FFC
	FFC  uint32     `json:"ffc,omitempty"`  // last-FFC time (ms), kept more than 10 s before time-on
}

type vfC11Case struct {
	Cam    vfCamDesc    `json:"cam"`
	Conf   vfConf       `json:"conf"`
	Base   []uint16     `json:"base"` // static scene (w*h), interior non-zero
	Amp    uint16       `json:"amp"`  // blob amplitude
	Frames []vfE2EFrame `json:"frames"`
	// throttled mode: small bucket, 1 s refill, and a real pause before frame PauseBefore so that the bucket
	// refills in the middle of a trigger
	PauseBefore int `json:"pause_before,omitempty"`
	PauseMs     int `json:"pause_ms,omitempty"`
	// FirstModel, when set, is the model of a camera that was connected (and sent a few still frames) before
	// this one, to the same daemon: what the earlier camera was must not shape this camera's files
	FirstModel string `json:"first_model,omitempty"`
}

func vfGenCam(t *rapid.T) vfCamDesc {
	c := vfCamDesc{Brand: "flir"}
	c.Model = rapid.SampledFrom([]string{"lepton3", "lepton3.5", "boson"}).Draw(t, "model")
	c.W = rapid.IntRange(8, 20).Draw(t, "w")
	c.H = rapid.IntRange(6, 16).Draw(t, "h")
	c.FPS = rapid.SampledFrom([]int{1, 2, 3, 5, 9, 9, 30}).Draw(t, "fps")
	c.Serial = rapid.SampledFrom([]int{0, 1, 9876, 2147483647}).Draw(t, "serial")
	c.Firmware = rapid.SampledFrom([]string{"1.2.3", "0.0.0", "", "3.3.26", "true", "v1 beta: #2", strings.Repeat("f", 255)}).Draw(t, "fw")
	return c
}

func vfGenText(t *rapid.T, label string) string {
	return rapid.SampledFrom([]string{"cam-01", "", "a b", "名前", "x\"y\\z", "#1: true", strings.Repeat("n", 255), "null"}).Draw(t, label)
}

func vfGenConf(t *rapid.T, cam vfCamDesc, simpleMotion bool) vfConf {
	c := vfConf{}
	c.DeviceID = rapid.SampledFrom([]int{0, 1, 42, 999999}).Draw(t, "devid")
	c.DeviceName = vfGenText(t, "devname")
	c.LocKeys = rapid.SampledFrom([]int{0, 0, 1, 2}).Draw(t, "lockeys")
	if c.LocKeys == 2 {
		c.Alt = float64(rapid.SampledFrom([]float32{0, 12.5}).Draw(t, "alt2"))
		c.Acc = float64(rapid.SampledFrom([]float32{0, 5}).Draw(t, "acc2"))
	}
	if c.LocKeys == 0 && rapid.Bool().Draw(t, "haslocation") {
		c.Lat = float64(rapid.SampledFrom([]float32{-43.5, 0, 51.25, -89.999}).Draw(t, "lat"))
		c.Lon = float64(rapid.SampledFrom([]float32{172.625, 0, -0.125, 179.99}).Draw(t, "lon"))
		c.Alt = float64(rapid.SampledFrom([]float32{0, 12.5, 2500}).Draw(t, "alt"))
		c.Acc = float64(rapid.SampledFrom([]float32{0, 5, 37.5}).Draw(t, "acc"))
		c.LocTime = rapid.SampledFrom([]string{"", "2019-07-01T12:00:05Z", "2021-12-31T23:59:59+13:00"}).Draw(t, "loctime")
	}
	maxFrames := 40
	lim := maxFrames / cam.FPS // keep streams short at high frame rates
	if lim < 1 {
		lim = 1
	}
	if lim > 2 {
		lim = 2
	}
	c.Prev = rapid.IntRange(0, lim).Draw(t, "preview")
	c.Min = rapid.IntRange(0, lim).Draw(t, "min")
	c.Max = c.Min + rapid.IntRange(0, lim).Draw(t, "maxx")
	c.Cont = false
	c.MinDiskMB = 1
	// throttling needs a positive refill rate: (min+preview) > 0 (with 0 the rate limiter refuses to be built)
	c.Throttle = rapid.Bool().Draw(t, "throttle") && c.Min+c.Prev > 0
	c.BucketS, c.RefillS = 600, 600
	c.WinStart, c.WinEnd = "12:00", "12:00"
	maxEdge := (min(cam.W, cam.H) - 3) / 2
	if maxEdge > 2 {
		maxEdge = 2
	}
	trig := rapid.IntRange(0, 3).Draw(t, "trigger")
	if c.Prev*cam.FPS+trig < 1 {
		trig = 1
	}
	if simpleMotion {
		c.Motion = vfSimpleMotion(trig, rapid.IntRange(0, maxEdge).Draw(t, "edge"))
	} else {
		// a subset of keys; omitted keys take the camera-model defaults
		m := vfMotionOv{}
		if rapid.Bool().Draw(t, "set_dynamic") {
			m.Dynamic = vfBP(rapid.Bool().Draw(t, "dynamic"))
		}
		if rapid.Bool().Draw(t, "set_gap") {
			m.Gap = vfIP(rapid.IntRange(1, 4).Draw(t, "gap"))
		}
		if rapid.Bool().Draw(t, "set_count") {
			m.Count = vfIP(rapid.IntRange(1, 4).Draw(t, "count"))
		}
		if rapid.Bool().Draw(t, "set_trigger") || c.Prev*cam.FPS < 1 {
			m.Trigger = vfIP(trig)
		}
		if rapid.Bool().Draw(t, "set_edge") {
			m.Edge = vfIP(rapid.IntRange(0, maxEdge).Draw(t, "edge"))
		}
		if rapid.Bool().Draw(t, "set_warmer") {
			m.Warmer = vfBP(rapid.Bool().Draw(t, "warmer"))
		}
		if rapid.Bool().Draw(t, "set_onediff") {
			m.OneDiff = vfBP(rapid.Bool().Draw(t, "onediff"))
		}
		if rapid.IntRange(0, 3).Draw(t, "set_verbose") == 0 {
			m.Verbose = vfBP(true)
		}
		switch rapid.IntRange(0, 7).Draw(t, "set_bounds") {
		case 0:
			m.TMin = vfIP(rapid.SampledFrom([]int{2000, 29000}).Draw(t, "tmin"))
			m.TMax = vfIP(*m.TMin + rapid.SampledFrom([]int{0, 500}).Draw(t, "tspan"))
		case 1: // only a lower bound
			m.TMin = vfIP(rapid.SampledFrom([]int{2000, 2800, 29000}).Draw(t, "tminonly"))
		case 2: // only an upper bound
			m.TMax = vfIP(rapid.SampledFrom([]int{3200, 30000}).Draw(t, "tmaxonly"))
		}
		c.Motion = m
	}
	return c
}

// vfEffectiveMotion is the motion configuration that must be in force: the camera-model defaults
// overlaid with the keys present in config.toml (restated here, independently of config.go).
func vfEffectiveMotion(model string, o vfMotionOv) goconfig.ThermalMotion {
	m := goconfig.DefaultThermalMotion(model)
	if o.Dynamic != nil {
		m.DynamicThreshold = *o.Dynamic
	}
	if o.TempThresh != nil {
		m.TempThresh = uint16(*o.TempThresh)
	}
	if o.Delta != nil {
		m.DeltaThresh = uint16(*o.Delta)
	}
	if o.TMin != nil {
		m.TempThreshMin = uint16(*o.TMin)
	}
	if o.TMax != nil {
		m.TempThreshMax = uint16(*o.TMax)
	}
	if o.Count != nil {
		m.CountThresh = *o.Count
	}
	if o.Gap != nil {
		m.FrameCompareGap = *o.Gap
	}
	if o.Trigger != nil {
		m.TriggerFrames = *o.Trigger
	}
	if o.Edge != nil {
		m.EdgePixels = *o.Edge
	}
	if o.OneDiff != nil {
		m.UseOneDiffOnly = *o.OneDiff
	}
	if o.Warmer != nil {
		m.WarmerOnly = *o.Warmer
	}
	if o.Verbose != nil {
		m.Verbose = *o.Verbose
	}
	return m
}

func vfGenC11(t *rapid.T) vfC11Case {
	c := vfC11Case{Cam: vfGenCam(t)}
	realSize := rapid.IntRange(0, 15).Draw(t, "realsize") == 0
	if realSize {
		// the resolutions of the real cameras (frames of 38 kB .. 640 kB)
		if c.Cam.Model == "boson" {
			c.Cam.W, c.Cam.H = 320, 256
			if rapid.Bool().Draw(t, "boson640") {
				c.Cam.W, c.Cam.H = 640, 512
			}
		} else {
			c.Cam.W, c.Cam.H = 160, 120
		}
	}
	simple := rapid.IntRange(0, 2).Draw(t, "simple") > 0
	c.Conf = vfGenConf(t, c.Cam, simple)
	eff := vfEffectiveMotion(c.Cam.Model, c.Conf.Motion)
	// static scene: arbitrary 16-bit values, border may be zero, interior never zero
	n := c.Cam.W * c.Cam.H
	level := rapid.SampledFrom([]uint16{1500, 2950, 5461, 28100, 40000}).Draw(t, "level")
	c.Base = make([]uint16, n)
	extreme := rapid.Bool().Draw(t, "extremes")
	for p := range c.Base {
		x, y := p%c.Cam.W, p/c.Cam.W
		onEdge := x < eff.EdgePixels || y < eff.EdgePixels || x >= c.Cam.W-eff.EdgePixels || y >= c.Cam.H-eff.EdgePixels
		v := level + uint16((x*7+y*13)%23)
		if extreme {
			switch (x + 3*y) % 11 {
			case 0:
				v = 65535
			case 1:
				v = 1
			}
		}
		if onEdge && ((realSize && (x+y)%3 == 0) || (!realSize && rapid.IntRange(0, 3).Draw(t, "edgezero") == 0)) {
			v = 0
		}
		c.Base[p] = v
	}
	c.Amp = uint16(int(eff.DeltaThresh) + rapid.SampledFrom([]int{1, 50, 3000}).Draw(t, "amp"))
	if rapid.IntRange(0, 3).Draw(t, "earlier_camera") == 0 {
		c.FirstModel = rapid.SampledFrom([]string{"lepton3", "lepton3.5", "boson"}).Draw(t, "first_model")
	}
	if simple && c.Cam.FPS <= 5 && rapid.IntRange(0, 11).Draw(t, "throttled_mode") == 0 {
		// the bucket holds one minimum-length recording, refills within a second; continuous motion
		c.Conf.Min, c.Conf.Prev, c.Conf.Max = 1, 1, 3
		c.Conf.Throttle, c.Conf.BucketS, c.Conf.RefillS = true, 2, 1
		fps := c.Cam.FPS
		n := 2 + 3*fps*3
		for i := 0; i < n; i++ {
			c.Frames = append(c.Frames, vfE2EFrame{On: i >= 2 && i%2 == 0, FPA: 30000, FPAF: 29000})
		}
		c.PauseBefore = rapid.IntRange(2+fps+1, 2+3*fps-1).Draw(t, "pausebefore")
		c.PauseMs = rapid.SampledFrom([]int{1200, 1600}).Draw(t, "pausems")
		return c
	}
	total := rapid.IntRange(20, 90).Draw(t, "nframes")
	if realSize && total > 30 {
		total = 30
	}
	// blob pattern: quiet lead-in, then motion episodes
	on := false
	for i := 0; i < total; i++ {
		f := vfE2EFrame{}
		switch {
		case i < 2:
		case rapid.IntRange(0, 5).Draw(t, "flip") == 0:
			on = !on
		}
		if rapid.IntRange(0, 2).Draw(t, "run") == 0 && i >= 2 {
			on = !on // dense toggling makes long motion runs under gap 1
		}
		f.On = on
		if rapid.IntRange(0, 9).Draw(t, "mutate") == 0 {
			p := rapid.IntRange(0, n-1).Draw(t, "mp")
			v := uint16(rapid.IntRange(1, 65535).Draw(t, "mv"))
			f.Mut = append(f.Mut, vfPixMut{P: p, V: v})
		}
		f.FPA = uint16(rapid.SampledFrom([]int{0, 27315, 30000, 30001, 65535}).Draw(t, "fpa"))
		f.FPAF = uint16(rapid.SampledFrom([]int{0, 27315, 29950, 65535}).Draw(t, "fpaf"))
		f.FFC = uint32(rapid.SampledFrom([]int{0, 1, 1000, 49999}).Draw(t, "ffc"))
		c.Frames = append(c.Frames, f)
	}
	return c
}

// vfBlob returns the interior pixels of the warm blob (enough of them for any count-thresh used).
func vfBlob(cam vfCamDesc, edge int) []int {
	var out []int
	for dy := 0; dy < 2; dy++ {
		for dx := 0; dx < 3; dx++ {
			x, y := edge+1+dx, edge+1+dy
			if x < cam.W-edge && y < cam.H-edge {
				out = append(out, y*cam.W+x)
			}
		}
	}
	return out
}

func vfC11Pixels(c vfC11Case, i int, edge int) []uint16 {
	pix := append([]uint16{}, c.Base...)
	f := c.Frames[i]
	if f.On {
		for _, p := range vfBlob(c.Cam, edge) {
			v := int(pix[p]) + int(c.Amp)
			if v > 65535 {
				v = 65535
			}
			pix[p] = uint16(v)
		}
	}
	for _, m := range f.Mut {
		if m.P >= 0 && m.P < len(pix) && m.V != 0 {
			pix[m.P] = m.V
		}
	}
	return pix
}

func vfC11Raw(c vfC11Case, i int, edge int) []byte {
	pix := vfC11Pixels(c, i, edge)
	f := c.Frames[i]
	raw := vfRawFrame(c.Cam, pix, uint32(60000+111*i), f.FFC, uint32(i))
	if c.Cam.lepton() {
		vfTelemetry(raw, uint32(60000+111*i), f.FFC, uint32(i), f.FPA, f.FPAF)
	}
	return raw
}

// twin sink: an in-memory recorder
type vfTwinRec struct {
	Bg     []uint16
	Thr    uint16
	Frames []vfFileFrame
	Closed bool
}

type vfTwinSink struct {
	recs []*vfTwinRec
	cur  *vfTwinRec
}

func (s *vfTwinSink) CheckCanRecord() error { return nil }
func (s *vfTwinSink) StartRecording(bg *cptvframe.Frame, thr uint16) error {
	s.cur = &vfTwinRec{Bg: vfFlatten(bg), Thr: thr}
	s.recs = append(s.recs, s.cur)
	return nil
}
func (s *vfTwinSink) WriteFrame(f *cptvframe.Frame) error {
	s.cur.Frames = append(s.cur.Frames, vfFileFrame{
		TimeOnMs: uint32(f.Status.TimeOn / time.Millisecond), LastFFCMs: uint32(f.Status.LastFFCTime / time.Millisecond),
		TempC: f.Status.TempC, LastFFCTempC: f.Status.LastFFCTempC, Pix: vfFlatten(f)})
	return nil
}
func (s *vfTwinSink) StopRecording() error {
	if s.cur != nil {
		s.cur.Closed = true
		s.cur = nil
	}
	return nil
}

func vfC11Valid(c vfC11Case) string {
	cam := c.Cam
	if cam.W < 4 || cam.H < 4 || cam.W > 640 || cam.H > 512 || cam.FPS < 1 || cam.FPS > 60 || len(c.Base) != cam.W*cam.H || len(c.Frames) > 400 {
		return "bad camera / stream"
	}
	if cam.Brand != "flir" || (cam.Model != "lepton3" && cam.Model != "lepton3.5" && cam.Model != "boson") {
		return "unsupported camera"
	}
	if c.FirstModel != "" && c.FirstModel != "lepton3" && c.FirstModel != "lepton3.5" && c.FirstModel != "boson" {
		return "unsupported earlier camera"
	}
	k := c.Conf
	if k.Min < 0 || k.Max < k.Min || k.Prev < 0 || len(k.DeviceName) > 255 || len(cam.Firmware) > 255 || k.Alt < 0 || (k.Throttle && k.Min+k.Prev < 1) {
		return "configuration outside the property's domain"
	}
	if (k.LocKeys == 1 && (k.Lat != 0 || k.Lon != 0 || k.Alt != 0 || k.Acc != 0 || k.LocTime != "")) || (k.LocKeys == 2 && (k.Lat != 0 || k.Lon != 0 || k.LocTime != "")) || k.LocKeys < 0 || k.LocKeys > 2 {
		return "location values given for keys that are not written"
	}
	eff := vfEffectiveMotion(cam.Model, k.Motion)
	if k.Prev*cam.FPS+eff.TriggerFrames < 1 || eff.CountThresh < 1 || eff.FrameCompareGap < 1 || 2*eff.EdgePixels >= cam.W-2 || 2*eff.EdgePixels >= cam.H-2 {
		return "motion configuration outside the property's domain"
	}
	for p, v := range c.Base {
		x, y := p%cam.W, p/cam.W
		onEdge := x < eff.EdgePixels || y < eff.EdgePixels || x >= cam.W-eff.EdgePixels || y >= cam.H-eff.EdgePixels
		if v == 0 && !onEdge {
			return "zero interior pixel (that is a bad frame, C13's subject)"
		}
	}
	return ""
}

func vfRunC11(c vfC11Case) *kit.Result {
	r := &kit.Result{}
	if msg := vfC11Valid(c); msg != "" {
		r.Failf("malformed case: %s", msg)
		return r
	}
	dir, err := os.MkdirTemp(os.Getenv("VERIF_SCRATCH"), "c11-")
	if err != nil {
		panic(err)
	}
	defer os.RemoveAll(dir)
	out := filepath.Join(dir, "out")
	os.Mkdir(out, 0755)
	if err := vfWriteConfig(dir, out, c.Conf); err != nil {
		panic(err)
	}
	vfResetGlobals()
	conn, parsed, err := vfStartConn(dir)
	if err != nil {
		r.Failf("ParseConfig rejected an in-range config.toml: %v", err)
		return r
	}
	eff := vfEffectiveMotion(c.Cam.Model, c.Conf.Motion)
	if c.FirstModel != "" {
		// an earlier camera of (possibly) another model: header, three still frames, disconnect; then the camera
		// under test connects to the same daemon (same Config object, as runMain's accept loop does)
		first := c.Cam
		first.Model = c.FirstModel
		feff := vfEffectiveMotion(first.Model, c.Conf.Motion)
		ok := conn.Write(vfHeaderBytes(first)) == nil
		still := append([]uint16{}, c.Base...)
		for p := range still {
			if still[p] == 0 {
				x, y := p%first.W, p/first.W
				if !(x < feff.EdgePixels || y < feff.EdgePixels || x >= first.W-feff.EdgePixels || y >= first.H-feff.EdgePixels) {
					still[p] = 1 // the earlier camera's edge may be narrower: keep its frames valid
				}
			}
		}
		for i := 0; ok && i < 3; i++ {
			ok = conn.SendFrame(vfRawFrame(first, still, uint32(30000+111*i), 0, uint32(i)), nil) == nil
		}
		cerr := conn.Close()
		if !ok || cerr == nil || !strings.Contains(cerr.Error(), "EOF") {
			r.Failf("the earlier camera's connection (model %s) ended with %v", c.FirstModel, cerr)
			return r
		}
		conn = vfStartConnWith(parsed)
	}

	// twin, wired by hand from the generated settings
	w, _ := window.New(c.Conf.WinStart, c.Conf.WinEnd, c.Conf.Lat, c.Conf.Lon)
	trc := &recorder.RecorderConfig{MinSecs: c.Conf.Min, MaxSecs: c.Conf.Max, PreviewSecs: c.Conf.Prev, Window: *w}
	sink := &vfTwinSink{}
	hi := vfCam{c.Cam.W, c.Cam.H, c.Cam.FPS}
	teff := eff
	twin := motion.NewMotionProcessor(frameParser(c.Cam.Brand, c.Cam.Model), &teff, trc, &goconfig.Location{}, nil, sink, hi, nil, &vfTwinSink{})

	if err := conn.Write(vfHeaderBytes(c.Cam)); err != nil {
		r.Failf("writing the header failed: %v", err)
		conn.Close()
		return r
	}
	for i := range c.Frames {
		raw := vfC11Raw(c, i, eff.EdgePixels)
		var atBarrier func()
		if c.PauseMs > 0 && i == c.PauseBefore {
			atBarrier = func() { time.Sleep(time.Duration(c.PauseMs) * time.Millisecond) }
		}
		if err := conn.SendFrame(raw, atBarrier); err != nil {
			cerr := conn.Close()
			r.Failf("frame %d could not be delivered (%v); handleConn ended with: %v", i, err, cerr)
			return r
		}
		if err := twin.Process(append([]byte{}, raw...)); err != nil {
			conn.Close()
			r.Failf("malformed case: frame %d is not a valid frame: %v", i, err)
			return r
		}
	}
	cerr := conn.Close()
	if cerr == nil || !strings.Contains(cerr.Error(), "EOF") && !strings.Contains(cerr.Error(), "closed") {
		r.Failf("handleConn ended with %v, want EOF at the end of the stream", cerr)
		return r
	}
	// finished files, in start order
	var files []*vfFile
	for _, n := range vfListDir(out) {
		if strings.HasSuffix(n, ".cptv") {
			f, err := vfReadCPTV(filepath.Join(out, n))
			if err != nil {
				r.Failf("finished recording %s does not decode: %v", n, err)
				return r
			}
			files = append(files, f)
		}
	}
	var want []*vfTwinRec
	for _, rec := range sink.recs {
		if rec.Closed {
			want = append(want, rec)
		}
	}
	if c.Conf.Throttle && c.Conf.BucketS < 600 {
		return vfC11Throttled(c, r, files, sink.recs, eff)
	}
	if len(files) != len(want) {
		r.Failf("%d finished recordings in the output directory %v, the stream and the settings (min %d max %d preview %d trigger-frames %d, motion %+v) yield %d", len(files), vfListDir(out), c.Conf.Min, c.Conf.Max, c.Conf.Prev, eff.TriggerFrames, eff, len(want))
		return r
	}
	wantMotion := map[string]interface{}{}
	yb, _ := yaml2.Marshal(eff)
	yaml2.Unmarshal(yb, &wantMotion)
	for k, f := range files {
		rec := want[k]
		if len(f.Frames) != len(rec.Frames)+1 {
			r.Failf("recording %s holds %d frames, want 1 background + %d", f.Name, len(f.Frames), len(rec.Frames))
			return r
		}
		bg := f.Frames[0]
		if !bg.Background || fmt.Sprint(bg.Pix) != fmt.Sprint(rec.Bg) {
			r.Failf("recording %s: first frame is not the background frame handed to the recorder (flag %v)", f.Name, bg.Background)
			return r
		}
		for i, wf := range rec.Frames {
			gf := f.Frames[i+1]
			if gf.Background {
				r.Failf("recording %s: frame %d flagged as background", f.Name, i)
				return r
			}
			if fmt.Sprint(gf.Pix) != fmt.Sprint(wf.Pix) {
				r.Failf("recording %s: frame %d (time-on %d ms) pixels differ from what was recorded", f.Name, i, wf.TimeOnMs)
				return r
			}
			if gf.TimeOnMs != wf.TimeOnMs || gf.LastFFCMs != wf.LastFFCMs {
				r.Failf("recording %s: frame %d time-on/last-FFC %d/%d ms, recorded %d/%d", f.Name, i, gf.TimeOnMs, gf.LastFFCMs, wf.TimeOnMs, wf.LastFFCMs)
				return r
			}
			if float32(gf.TempC) != float32(wf.TempC) || float32(gf.LastFFCTempC) != float32(wf.LastFFCTempC) {
				r.Failf("recording %s: frame %d temperatures %v/%v, recorded %v/%v", f.Name, i, gf.TempC, gf.LastFFCTempC, wf.TempC, wf.LastFFCTempC)
				return r
			}
		}
		h := f.R
		type hdr struct {
			Name                           string
			ID                             int
			Brand, Model, Firmware         string
			Serial, ResX, ResY, FPS, Prev  int
			Lat, Lon, Alt, Acc             float32
			LocTS                          int64
		}
		got := hdr{h.DeviceName(), h.DeviceID(), h.BrandName(), h.ModelName(), h.FirmwareVersion(), h.SerialNumber(), h.ResX(), h.ResY(), h.FPS(), h.PreviewSecs(),
			h.Latitude(), h.Longitude(), h.Altitude(), h.Accuracy(), 0}
		if ts := h.LocTimestamp(); !ts.IsZero() {
			got.LocTS = ts.Unix()
		}
		fw := c.Cam.Firmware
		if fw == "" {
			fw = "<unknown>" // the reader's placeholder for an absent field
		}
		wantH := hdr{c.Conf.DeviceName, c.Conf.DeviceID, c.Cam.Brand, c.Cam.Model, fw, c.Cam.Serial, c.Cam.W, c.Cam.H, c.Cam.FPS, c.Conf.Prev,
			float32(c.Conf.Lat), float32(c.Conf.Lon), float32(c.Conf.Alt), float32(c.Conf.Acc), 0}
		if c.Conf.LocTime != "" {
			ts, _ := time.Parse(time.RFC3339, c.Conf.LocTime)
			wantH.LocTS = ts.Unix()
		}
		if got != wantH {
			r.Failf("recording %s: header %+v, want %+v", f.Name, got, wantH)
			return r
		}
		gm := map[string]interface{}{}
		if err := yaml2.Unmarshal([]byte(h.MotionConfig()), &gm); err != nil {
			r.Failf("recording %s: motion configuration in the header is not YAML: %v", f.Name, err)
			return r
		}
		wm := map[string]interface{}{}
		for k, v := range wantMotion {
			wm[k] = v
		}
		wm["triggeredthresh"] = int(rec.Thr)
		if fmt.Sprint(gm) != fmt.Sprint(wm) {
			r.Failf("recording %s: motion configuration in the header %v, want %v (settings in force + threshold at trigger)", f.Name, gm, wm)
			return r
		}
	}
	nonDefault := 0
	def := vfConf{}
	if c.Conf.Min != 10 {
		nonDefault++
	}
	if c.Conf.Max != 600 {
		nonDefault++
	}
	if c.Conf.Prev != 5 {
		nonDefault++
	}
	_ = def
	if len(files) > 0 {
		r.Class("has_finished_file")
	}
	if len(files) > 1 {
		r.Class("files>=2")
	}
	if c.Conf.Motion.Gap == nil || c.Conf.Motion.Dynamic == nil {
		r.Class("model_defaults_in_force")
	}
	r.Class("model=" + c.Cam.Model)
	if c.Cam.W >= 160 {
		r.Class("real_resolution")
	}
	if c.Conf.Throttle {
		r.Class("throttle_on")
	}
	if c.FirstModel != "" && c.FirstModel != c.Cam.Model {
		r.Class("after_camera_of_another_model")
	}
	r.NT = len(files) > 0 && nonDefault >= 3
	return r
}

type vfCam struct{ X, Y, F int }

func (c vfCam) ResX() int { return c.X }
func (c vfCam) ResY() int { return c.Y }
func (c vfCam) FPS() int  { return c.F }

func TestVF_C11(t *testing.T) {
	kit.Drive(t, "C11", "TestVF_C11",
		"generated: a config.toml (device id/name incl. 255-byte and YAML/TOML-hostile names, location with timestamp, min/max/preview secs, thermal-motion key subsets so that omitted keys take the camera-model defaults, throttler on/off) parsed by the real ParseConfig; a camera header (flir lepton3 / lepton3.5 / boson, 8x6..20x16, fps 1-30, serial, firmware up to 255 bytes) and a raw stream of 20-90 frames with arbitrary 16-bit pixels (zero border pixels, 1 and 65535 in the interior), arbitrary FPA temperature words and last-FFC times, motion made by a warm blob, fed to the real handleConn over a pipe in lock step; in a quarter of the cases a camera of another model was connected to the same daemon before. Oracle (differential + round-trip): a twin MotionProcessor wired by hand from the generated settings with an in-memory sink receives the same raw frames; the finished .cptv files must equal the twin's recordings one-to-one - background frame first, every frame pixel-exact with time-on, last-FFC time and temperatures - and carry device name/id, brand, model, serial, firmware, resolution, fps, location, preview-secs and the effective motion settings plus the threshold at trigger. Non-trivial: at least one finished file with min/max/preview all different from the defaults.",
		vfGenC11, vfRunC11)
}

var _ = math.Abs


// vfC11Throttled: with a small bucket the files are pieces of the un-throttled twin's recordings. Each finished
// file must be a contiguous run of frames of one twin recording, carry that recording's background frame first
// and its threshold at trigger in the header, whichever way the file was (re)started.
func vfC11Throttled(c vfC11Case, r *kit.Result, files []*vfFile, recs []*vfTwinRec, eff goconfig.ThermalMotion) *kit.Result {
	restarted := false
	for _, f := range files {
		if len(f.Frames) < 2 || !f.Frames[0].Background {
			r.Failf("throttled recording %s: %d frames, background frame first=%v (a file re-started after a throttle cut must carry the background frame too)", f.Name, len(f.Frames), len(f.Frames) > 0 && f.Frames[0].Background)
			return r
		}
		gm := map[string]interface{}{}
		if err := yaml2.Unmarshal([]byte(f.R.MotionConfig()), &gm); err != nil {
			r.Failf("throttled recording %s: motion configuration is not YAML: %v", f.Name, err)
			return r
		}
		matched := false
		for _, rec := range recs {
			// locate the file's frames as a contiguous run of rec.Frames
			for off := 0; off+len(f.Frames)-1 <= len(rec.Frames); off++ {
				ok := true
				for i := 1; i < len(f.Frames); i++ {
					w := rec.Frames[off+i-1]
					g := f.Frames[i]
					if g.TimeOnMs != w.TimeOnMs || fmt.Sprint(g.Pix) != fmt.Sprint(w.Pix) {
						ok = false
						break
					}
				}
				if !ok {
					continue
				}
				matched = true
				if off > 0 {
					restarted = true
				}
				if fmt.Sprint(f.Frames[0].Pix) != fmt.Sprint(rec.Bg) {
					r.Failf("throttled recording %s (frames %d.. of a trigger) does not start with the background frame in force at the trigger", f.Name, off)
					return r
				}
				if fmt.Sprint(gm["triggeredthresh"]) != fmt.Sprint(int(rec.Thr)) {
					r.Failf("throttled recording %s (frames %d.. of a trigger) carries triggeredthresh %v, the threshold at the trigger was %d", f.Name, off, gm["triggeredthresh"], rec.Thr)
					return r
				}
				break
			}
			if matched {
				break
			}
		}
		if !matched {
			r.Failf("throttled recording %s is not a contiguous piece of any recording the un-throttled twin makes", f.Name)
			return r
		}
	}
	r.Class("throttled_mode")
	if restarted {
		r.Class("mid_trigger_restart_file")
	}
	r.NT = restarted
	return r
}

//go:build verif

package main

import (
	"bufio"
	"encoding/json"
	"fmt"
	"os"
	"os/exec"
	"path/filepath"
	"regexp"
	"runtime"
	"sort"
	"strconv"
	"strings"
	"syscall"
	"testing"
	"time"

	cptv "github.com/TheCacophonyProject/go-cptv"
	"github.com/TheCacophonyProject/go-cptv/cptvframe"
	"periph.io/x/periph/host"
	"pgregory.net/rapid"
	kit "verifkit"
)

// C10: only complete recordings ever bear the .cptv name; after a kill at any point the start-up
// clean-up leaves complete recordings only. Crash points are the file-system system calls of the
// thread that runs handleConn, enumerated with strace signal injection (DESIGN.md 3.6).

func init() {
	// the child process runs handleConn on the main goroutine, wired to the main thread, so that all its
	// file-system system calls are made by one thread with a reproducible history
	runtime.LockOSThread()
}

func TestMain(m *testing.M) {
	if p := os.Getenv("VERIF_C10_CHILD"); p != "" {
		vfC10Child(p, os.Getenv("VERIF_C10_DIR"))
		os.Exit(0)
	}
	if d := os.Getenv("VERIF_C10_RESTART"); d != "" {
		vfC10Restart(d)
	}
	if d := os.Getenv("VERIF_C10_CLEANUP"); d != "" {
		// the start-up clean-up alone, on the main thread (so that strace can kill it at its k-th unlink)
		deleteTempFiles(d)
		os.Exit(0)
	}
	os.Exit(m.Run())
}

// vfC10Restart is the daemon starting up again after the kill: the real runMain with the configuration in dir, on
// a private D-Bus message bus, up to the moment it listens for the camera. Exit codes: 0 = it is waiting for a
// camera connection, 5 = no message bus could be started here (the caller falls back to calling the clean-up
// function directly), 6 = runMain returned (its error is printed).
func vfC10Restart(dir string) {
	bus, err := vfGetBus()
	if err != nil {
		fmt.Println("no private message bus:", err)
		os.Exit(5)
	}
	defer bus.cmd.Process.Kill()
	if _, err := host.Init(); err != nil {
		// the host drivers the daemon initialises are not usable here: nothing to do with the code under test
		fmt.Println("host.Init:", err)
		bus.cmd.Process.Kill()
		os.Exit(5)
	}
	conf, err := ParseConfig(dir)
	if err != nil {
		fmt.Println("ParseConfig:", err)
		bus.cmd.Process.Kill()
		os.Exit(6)
	}
	os.Args = []string{"thermal-recorder", "-c", dir}
	vfQuietLogs()
	errc := make(chan error, 1)
	go func() { errc <- runMain() }()
	deadline := time.Now().Add(20 * time.Second)
	for time.Now().Before(deadline) {
		select {
		case err := <-errc:
			fmt.Println("runMain returned:", err)
			bus.cmd.Process.Kill()
			os.Exit(6)
		default:
		}
		if fi, err := os.Stat(conf.FrameInput); err == nil && fi.Mode()&os.ModeSocket != 0 {
			bus.cmd.Process.Kill()
			os.Exit(0)
		}
		time.Sleep(2 * time.Millisecond)
	}
	fmt.Println("runMain did not start listening for the camera within 20 s")
	bus.cmd.Process.Kill()
	os.Exit(5)
}

// vfC10RunRestart spawns vfC10Restart for the configuration in dir.
func vfC10RunRestart(dir string) (int, string) {
	cmd := exec.Command(os.Args[0], "-test.run", "^$")
	cmd.Env = append(os.Environ(), "VERIF_C10_RESTART="+dir, "VERIF_C10_CHILD=")
	cmd.Dir = dir
	done := make(chan struct{})
	var out []byte
	var err error
	go func() { out, err = cmd.CombinedOutput(); close(done) }()
	select {
	case <-done:
	case <-time.After(40 * time.Second):
		cmd.Process.Kill()
		<-done
		return 5, "timeout"
	}
	if err == nil {
		return 0, ""
	}
	if ee, ok := err.(*exec.ExitError); ok {
		return ee.ExitCode(), strings.TrimSpace(string(out))
	}
	return 5, err.Error()
}

type vfC10Case struct {
	Sock    vfSockCase `json:"sock"`
	TestAt  []int      `json:"test_at,omitempty"` // item indices before which a test recording is requested
	Point   int        `json:"point"`             // replay: the crash point (k-th file-system call after the start marker); 0 = enumerate
	// Backlog: finished recordings already in the output directory before the daemon starts (a device that has
	// been offline for a while); they are hard links to one small complete recording, named like older recordings
	Backlog int `json:"backlog,omitempty"`
	// Stubborn: the output directory also holds a non-empty directory whose name matches the temporary-file
	// pattern and which therefore cannot be removed: the clean-up may refuse (return an error), but if it reports
	// success nothing temporary may be left
	Stubborn bool `json:"stubborn,omitempty"`
}

const (
	vfBacklogPrefix = "20200101."
	vfStubbornName  = "00000000.000000.000.cptv.temp.d"
)

// several such entries: directory listings come in hash order, and debris listed before the first undeletable
// entry is removed even by a clean-up that gives up there
var vfStubbornNames = []string{vfStubbornName, "99999999.235959.999.cptv.temp.d", "quarantine.cptv.temp.d", "a.cptv.temp.keep"}

// vfBacklogSeed writes one small complete recording with the CPTV library the recorder uses.
func vfBacklogSeed(root string) string {
	path := filepath.Join(root, "backlog-seed.cptv")
	if _, err := os.Stat(path); err == nil {
		return path
	}
	cam := vfCam{X: 8, Y: 6, F: 9}
	w, err := cptv.NewFileWriter(path+".new", cam)
	if err != nil {
		panic(err)
	}
	if err := w.WriteHeader(cptv.Header{DeviceName: "backlog", Timestamp: time.Unix(1577836800, 0)}); err != nil {
		panic(err)
	}
	f := cptvframe.NewFrame(cam)
	for y := range f.Pix {
		for x := range f.Pix[y] {
			f.Pix[y][x] = 3000
		}
	}
	if err := w.WriteFrame(f); err != nil {
		panic(err)
	}
	w.Close()
	os.Rename(path+".new", path)
	return path
}

const (
	vfMarkBegin = "/verif-c10-marker-begin"
	vfMarkEnd   = "/verif-c10-marker-end"
	vfFsSet     = "openat,write,pwrite64,close,lseek,rename,renameat,renameat2,unlink,unlinkat,mkdir,mkdirat,ftruncate"
)

// vfC10Child: one self-contained run. dir already holds config.toml and the (empty) output directory.
func vfC10Child(casePath, dir string) {
	b, err := os.ReadFile(casePath)
	if err != nil {
		os.Exit(3)
	}
	var c vfC10Case
	if json.Unmarshal(b, &c) != nil {
		os.Exit(3)
	}
	vfQuietLogs()
	conf, err := ParseConfig(dir)
	if err != nil {
		os.Exit(4)
	}
	vfResetGlobals()
	server, client := vfPipe()
	conn := &vfConn{client: client, done: make(chan error, 1)}
	testAt := map[int]bool{}
	for _, i := range c.TestAt {
		testAt[i] = true
	}
	go func() {
		sc := c.Sock
		conn.Write(vfHeaderBytes(sc.Cam))
		level := false
		id := 0
		for i, it := range sc.Items {
			var raw []byte
			switch it.K {
			case vfItFrame:
				if it.On {
					level = !level
				}
				raw, _ = vfSockFrame(sc, id, level, false)
				id++
			case vfItBad:
				raw, _ = vfSockFrame(sc, 1599, !level, true)
			case vfItClear:
				conn.Write([]byte("clear"))
				continue
			}
			conn.SendFrame(raw, func() {
				if testAt[i] {
					newSnapshotRecording()
				}
			})
		}
		client.Close()
	}()
	// other threads of the runtime make a few write(eventfd) calls of their own; strace counts per thread and
	// per call name, so put the main thread's counters far above anything they can reach
	for i := 0; i < 2000; i++ {
		syscall.Write(-1, nil)
		syscall.Close(-1)
	}
	syscall.Unlink(vfMarkBegin)
	handleConn(server, conf)
	syscall.Unlink(vfMarkEnd)
}

var vfStraceLine = regexp.MustCompile(`^(\d+)\s+([a-z0-9_]+)\(`)

// vfStraceCalls returns, for the main thread (tid == first pid seen), the sequence of system call lines.
func vfStraceCalls(logPath string) (calls []string, killed bool, err error) {
	f, err := os.Open(logPath)
	if err != nil {
		return nil, false, err
	}
	defer f.Close()
	sc := bufio.NewScanner(f)
	sc.Buffer(make([]byte, 1<<20), 1<<22)
	main := ""
	for sc.Scan() {
		line := sc.Text()
		m := vfStraceLine.FindStringSubmatch(line)
		if m == nil {
			if strings.Contains(line, "+++ killed by SIGKILL") {
				killed = true
			}
			continue
		}
		if main == "" {
			main = m[1]
		}
		if m[1] == main {
			calls = append(calls, line)
		}
	}
	return calls, killed, sc.Err()
}

type vfC10Layout struct {
	begin, end int      // indices of the marker calls in the main thread's call sequence
	calls      []string // main-thread file-system calls of the reference run
}

func vfC10Prepare(c vfC10Case, root string) (dir, out, casePath string) {
	dir, err := os.MkdirTemp(root, "c10-")
	if err != nil {
		panic(err)
	}
	sc := c.Sock
	out = sc.makeOut(dir)
	if c.Backlog > 0 {
		seed := vfBacklogSeed(root)
		for i := 0; i < c.Backlog; i++ {
			name := filepath.Join(out, fmt.Sprintf("%s%06d.%03d.cptv", vfBacklogPrefix, i/1000, i%1000))
			if err := os.Link(seed, name); err != nil {
				b, _ := os.ReadFile(seed)
				os.WriteFile(name, b, 0644)
			}
		}
	}
	if c.Stubborn {
		for _, n := range vfStubbornNames {
			os.MkdirAll(filepath.Join(out, n), 0755)
			os.WriteFile(filepath.Join(out, n, "keep"), []byte("x"), 0644)
		}
	}
	conf := vfConf{DeviceName: "c10", Min: sc.Min, Max: sc.Max, Prev: sc.Prev, Cont: sc.Cont, MinDiskMB: 1, BucketS: 600, RefillS: 600,
		WinStart: "12:00", WinEnd: "12:00", Motion: sc.motionConf()}
	if err := vfWriteConfig(dir, out, conf); err != nil {
		panic(err)
	}
	casePath = filepath.Join(dir, "case.json")
	b, _ := json.Marshal(c)
	os.WriteFile(casePath, b, 0644)
	return
}

// vfC10Spawn runs the child under strace; with call != "" it is killed on entering the ord-th invocation of
// that system call (strace counts per thread and per system call name).
func vfC10Spawn(dir, casePath string, call string, ord int) (logPath string, err error) {
	logPath = filepath.Join(dir, "strace.log")
	args := []string{"-f", "-o", logPath, "-e", "trace=" + vfFsSet}
	if call != "" {
		args = append(args, "-e", fmt.Sprintf("inject=%s:signal=SIGKILL:when=%d", call, ord))
	}
	args = append(args, os.Args[0], "-test.run", "^$")
	cmd := exec.Command("strace", args...)
	cmd.Env = append(os.Environ(), "VERIF_C10_CHILD="+casePath, "VERIF_C10_DIR="+dir, "GOMAXPROCS=2")
	cmd.Dir = dir
	outb, runErr := cmd.CombinedOutput()
	if call == "" && runErr != nil {
		return logPath, fmt.Errorf("reference run failed: %v: %s", runErr, outb)
	}
	return logPath, nil
}

// vfFilterCalls drops the Go runtime's own wake-up writes (8-byte writes of the value 1 to an eventfd).
func vfFilterCalls(calls []string) []string {
	var out []string
	for _, l := range calls {
		if strings.Contains(l, `"\1\0\0\0\0\0\0\0", 8)`) {
			continue
		}
		out = append(out, l)
	}
	return out
}

func vfCallName(line string) string {
	m := vfStraceLine.FindStringSubmatch(line)
	if m == nil {
		return ""
	}
	return m[2]
}

type vfDirState struct {
	files   [][]int // frame ids of every *.cptv, in name order
	backlog int     // finished recordings that were there before the daemon started (not decoded one by one)
	names   []string
	others  []string // everything else in the top-level directory (files only)
	contTmp int
	msg     string
}

func vfC10ReadDir(sc vfSockCase, out string) vfDirState {
	var st vfDirState
	for _, n := range vfListDir(out) {
		switch {
		case n == vfStubbornNames[0]+"/" || n == vfStubbornNames[1]+"/" || n == vfStubbornNames[2]+"/" || n == vfStubbornNames[3]+"/":
		case strings.HasPrefix(n, vfBacklogPrefix) && strings.HasSuffix(n, ".cptv"):
			st.backlog++
		case strings.HasSuffix(n, "/"):
			for _, m := range vfListDir(filepath.Join(out, n)) {
				if strings.HasSuffix(m, ".cptv") {
					if _, err := vfReadCPTV(filepath.Join(out, n, m)); err != nil {
						st.msg = fmt.Sprintf("%s%s bears the .cptv name but does not decode: %v", n, m, err)
						return st
					}
				} else {
					st.contTmp++
				}
			}
		case strings.HasSuffix(n, ".cptv"):
			f, err := vfReadCPTV(filepath.Join(out, n))
			if err != nil {
				st.msg = fmt.Sprintf("%s bears the .cptv name but is not a complete recording: %v", n, err)
				return st
			}
			var ids []int
			for i, fr := range f.Frames {
				if i > 0 {
					ids = append(ids, vfSockID(sc, fr.Pix))
				}
			}
			st.files = append(st.files, ids)
			st.names = append(st.names, n)
		default:
			st.others = append(st.others, n)
		}
	}
	return st
}

func vfC10Valid(c vfC10Case) string {
	if msg := vfSockValid(c.Sock); msg != "" {
		return msg
	}
	if len(c.Sock.Items) > 400 || c.Point < 0 || c.Backlog < 0 || c.Backlog > 6000 {
		return "stream too long"
	}
	return ""
}

// vfC10Points chooses the crash points: all of them (thorough) or a stratified sample (quick): every
// point within 6 calls of a rename / unlink / open of a recording, and a sample of the rest.
func vfC10Points(lay vfC10Layout, all bool, budget int) []int {
	n := lay.end - lay.begin - 1
	var pts []int
	if all || n <= budget {
		for k := 1; k <= n; k++ {
			pts = append(pts, k)
		}
		return pts
	}
	near := map[int]bool{}
	for i := lay.begin + 1; i < lay.end; i++ {
		l := lay.calls[i]
		if strings.Contains(l, "rename") || strings.Contains(l, "unlink") || (strings.Contains(l, "openat") && strings.Contains(l, ".cptv")) {
			for d := -6; d <= 6; d++ {
				k := i - lay.begin + d
				if k >= 1 && k <= n {
					near[k] = true
				}
			}
		}
	}
	for k := range near {
		pts = append(pts, k)
	}
	sort.Ints(pts)
	if len(pts) > budget*3/4 {
		// thin out evenly
		step := float64(len(pts)) / float64(budget*3/4)
		var t []int
		for f := 0.0; int(f) < len(pts); f += step {
			t = append(t, pts[int(f)])
		}
		pts = t
	}
	rest := budget - len(pts)
	for j := 0; j < rest; j++ {
		k := 1 + (j*n)/rest
		if !near[k] {
			pts = append(pts, k)
		}
	}
	sort.Ints(pts)
	return pts
}

func vfC10Phase(lay vfC10Layout, k int) string {
	// classify the crash point by what the thread was about to do and what surrounds it
	i := lay.begin + k
	if i >= len(lay.calls) || i >= lay.end {
		return "after_last_call"
	}
	l := lay.calls[i]
	switch {
	case strings.Contains(l, "rename"):
		return "at_rename"
	case strings.Contains(l, "unlink"):
		return "at_unlink_of_scratch"
	case strings.Contains(l, "openat") && strings.Contains(l, ".cptv"):
		return "at_open_of_recording"
	case strings.Contains(l, "close("):
		return "at_close"
	case strings.Contains(l, "lseek"):
		return "at_seek_(compress)"
	case strings.Contains(l, "write("):
		return "at_write"
	}
	return "other"
}

func vfRunC10(c vfC10Case) *kit.Result {
	r := &kit.Result{}
	if msg := vfC10Valid(c); msg != "" {
		r.Failf("malformed case: %s", msg)
		return r
	}
	if _, err := exec.LookPath("strace"); err != nil {
		r.Infra = fmt.Sprintf("strace is not available")
		return r
	}
	root := os.Getenv("VERIF_SCRATCH")
	// reference run (uncrashed), which also numbers the crash points
	dir, out, casePath := vfC10Prepare(c, root)
	defer os.RemoveAll(dir)
	logPath, err := vfC10Spawn(dir, casePath, "", 0)
	if err != nil {
		if msg := err.Error(); strings.Contains(msg, "panic:") || strings.Contains(msg, "fatal error:") {
			// the daemon's own code brought the uncrashed run down
			if i := strings.Index(msg, "panic:"); i >= 0 {
				msg = msg[i:]
			}
			if len(msg) > 600 {
				msg = msg[:600]
			}
			r.Failf("the daemon crashed while processing the stream (no kill was injected): %s", msg)
			return r
		}
		r.Infra = fmt.Sprintf("%v", err)
		return r
	}
	calls, _, err := vfStraceCalls(logPath)
	if err != nil {
		r.Infra = fmt.Sprintf("%v", err)
		return r
	}
	lay := vfC10Layout{begin: -1, end: -1, calls: calls}
	for i, l := range calls {
		if strings.Contains(l, vfMarkBegin) {
			lay.begin = i
		}
		if strings.Contains(l, vfMarkEnd) {
			lay.end = i
		}
	}
	if lay.begin < 0 || lay.end <= lay.begin {
		r.Infra = fmt.Sprintf("markers not found in the strace log of the reference run (%d calls)", len(calls))
		return r
	}
	ref := vfC10ReadDir(c.Sock, out)
	if ref.msg != "" {
		r.Failf("reference run: %s", ref.msg)
		return r
	}
	all := os.Getenv("VERIF_TIER") == "thorough"
	budget := 40
	if v, err := strconv.Atoi(os.Getenv("VERIF_C10_POINTS")); err == nil && v > 0 {
		budget = v
	}
	points := vfC10Points(lay, all, budget)
	if c.Point > 0 {
		points = []int{c.Point}
	}
	misaligned, shifted := 0, 0
	variants := 0
	restarts := 0
	inProgress := 0
	covered := map[int]bool{}
	for _, k := range points {
		kdir, kout, kcase := vfC10Prepare(c, root)
		// the k-th call after the start marker: its name and its ordinal among the main thread's calls of that name
		target := lay.begin + k
		if target >= lay.end {
			os.RemoveAll(kdir)
			continue
		}
		name := vfCallName(lay.calls[target])
		ord := 0
		for i := 0; i <= target; i++ {
			if vfCallName(lay.calls[i]) == name {
				ord++
			}
		}
		klog, _ := vfC10Spawn(kdir, kcase, name, ord)
		kcalls, killed, _ := vfStraceCalls(klog)
		// Any kill is a valid crash state. Where it actually happened is read from this run's own log: the
		// runtime occasionally makes an extra write(eventfd) on the main thread, which shifts the numbering.
		// Such calls are ignored when locating the crash point in the reference sequence.
		if !killed {
			misaligned++
			os.RemoveAll(kdir)
			continue
		}
		actual := len(vfFilterCalls(kcalls)) - 1 - len(vfFilterCalls(lay.calls[:lay.begin+1])) + 1
		if actual != k {
			shifted++
		}
		if actual >= 1 {
			covered[actual] = true
		}
		st := vfC10ReadDir(c.Sock, kout)
		phase := vfC10Phase(lay, actual)
		fail := func(format string, a ...interface{}) *kit.Result {
			cc := c
			cc.Point = k
			r.ReplayCase = cc
			r.Failf("killed on entering file-system call %d of %d after the connection started (%s; next call would have been: %s): %s", actual, lay.end-lay.begin-1, phase, vfC10Call(lay, actual), fmt.Sprintf(format, a...))
			os.RemoveAll(kdir)
			return r
		}
		if st.msg != "" {
			return fail("%s", st.msg)
		}
		// every surviving .cptv file is one of the complete recordings of the uncrashed run (recordings of
		// different kinds overlap in time, so the match is by content, each reference recording used once)
		avail := map[string]int{}
		for _, f := range ref.files {
			avail[fmt.Sprint(f)]++
		}
		for i, f := range st.files {
			key := fmt.Sprint(f)
			if avail[key] == 0 {
				return fail("recording %s holds frames %v, which is not one of the complete recordings of the uncrashed run %v", st.names[i], f, ref.files)
			}
			avail[key]--
		}
		if len(st.others) > 0 {
			inProgress++
		}
		// the same crash state in less tidy surroundings (copies of the directory as the kill left it): next to
		// entries the clean-up cannot delete, and behind a backlog of finished recordings
		if (len(st.others) > 0 || st.contTmp > 0) && !c.Stubborn && c.Backlog == 0 {
			variants++
			if msg := vfC10Variants(c, kdir, kout, variants <= 6); msg != "" {
				return fail("%s", msg)
			}
			r.Count("crash_states_rechecked_in_untidy_directories", 1)
		}
		// the daemon starts again: for the first crash states with debris of every stream this is the real runMain
		// (up to the point where it waits for the camera) on a private message bus ...
		restarted := false
		if restarts < 5 && (len(st.others) > 0 || st.contTmp > 0) && !c.Stubborn {
			rc, msg := vfC10RunRestart(kdir)
			switch rc {
			case 0:
				restarted = true
				restarts++
				r.Count("restarts_through_runMain", 1)
			case 6:
				return fail("the daemon did not come up again after the kill: %s", msg)
			default:
				restarts = 99
				r.Class("runMain_restart_unavailable")
			}
		}
		// ... and the start-up clean-up function itself (idempotent after a real restart)
		if restarted {
			up := vfC10ReadDir(c.Sock, kout)
			if up.msg != "" {
				return fail("after the daemon started again: %s", up.msg)
			}
			if len(up.others) > 0 || up.contTmp > 0 {
				return fail("the daemon has started again and is waiting for the camera, but the output directory still holds %v (and %d temporary files in constant-recordings) besides the complete recordings %v", up.others, up.contTmp, up.names)
			}
		}
		if err := deleteTempFiles(kout); err != nil {
			if c.Stubborn && len(vfListDir(filepath.Join(kout, vfStubbornName))) > 0 {
				// refusing loudly is acceptable: the daemon does not start on top of what it could not clean
				r.Class("cleanup_refused_over_undeletable_entry")
				r.Count("crash_points", 1)
				os.RemoveAll(kdir)
				continue
			}
			return fail("deleteTempFiles failed: %v", err)
		}
		after := vfC10ReadDir(c.Sock, kout)
		if after.backlog != c.Backlog || st.backlog != c.Backlog {
			return fail("%d finished recordings were in the output directory before the daemon started; %d after the kill, %d after the start-up clean-up", c.Backlog, st.backlog, after.backlog)
		}
		if after.msg != "" {
			return fail("after the start-up clean-up: %s", after.msg)
		}
		if len(after.others) > 0 {
			return fail("after the start-up clean-up the output directory still holds %v besides the complete recordings %v", after.others, after.names)
		}
		if after.contTmp > 0 {
			return fail("after the start-up clean-up the constant-recordings sub-directory of the output directory still holds %d temporary artefacts", after.contTmp)
		}
		if len(after.files) != len(st.files) {
			return fail("the start-up clean-up removed complete recordings: %d before, %d after", len(st.files), len(after.files))
		}
		r.Class("phase=" + phase)
		r.Count("crash_points", 1)
		r.Count("const_rec_temp_left", st.contTmp)
		os.RemoveAll(kdir)
	}
	r.Count("runs_not_killed_skipped", misaligned)
	r.Count("kills_shifted_by_runtime_calls", shifted)
	r.Count("distinct_crash_points_hit", len(covered))
	r.Count("crash_points_with_recording_in_progress", inProgress)
	r.Count("fs_calls_in_reference_run", len(vfFilterCalls(lay.calls[lay.begin+1:lay.end])))
	if misaligned > len(points)/2 && len(points) > 2 {
		r.Infra = fmt.Sprintf("%d of %d crash runs did not end in the injected kill", misaligned, len(points))
		return r
	}
	r.NT = inProgress > 0
	r.ExtraEvals = len(points) - misaligned
	r.ExtraNT = inProgress
	if all || len(points) >= lay.end-lay.begin {
		r.Class("all_points_of_stream")
	}
	return r
}

// vfCopyDir copies the regular files and directories below src (following symbolic links) to dst.
func vfCopyDir(src, dst string) error {
	os.MkdirAll(dst, 0755)
	ents, err := os.ReadDir(src)
	if err != nil {
		return err
	}
	for _, e := range ents {
		sp, dp := filepath.Join(src, e.Name()), filepath.Join(dst, e.Name())
		fi, err := os.Stat(sp)
		if err != nil {
			continue
		}
		if fi.IsDir() {
			if err := vfCopyDir(sp, dp); err != nil {
				return err
			}
			continue
		}
		b, err := os.ReadFile(sp)
		if err != nil {
			return err
		}
		if err := os.WriteFile(dp, b, 0644); err != nil {
			return err
		}
	}
	return nil
}

// vfC10Variants re-checks the clean-up on copies of a crash state: (a) with undeletable entries matching the
// temporary-file pattern planted next to the debris - the clean-up may refuse with an error, but if it reports
// success nothing temporary may be left; (b) behind a backlog of 2600 finished recordings - it must succeed,
// remove every temporary artefact and no finished recording.
func vfC10Variants(c vfC10Case, kdir, kout string, withBacklog bool) string {
	check := func(dir string, wantBacklog int, what string) string {
		st := vfC10ReadDir(c.Sock, dir)
		if st.msg != "" {
			return what + ": " + st.msg
		}
		if len(st.others) > 0 || st.contTmp > 0 {
			return fmt.Sprintf("%s: the start-up clean-up reported success but the output directory still holds %v (and %d temporary files in constant-recordings)", what, st.others, st.contTmp)
		}
		if st.backlog != wantBacklog {
			return fmt.Sprintf("%s: %d of the %d finished recordings are left after the clean-up", what, st.backlog, wantBacklog)
		}
		return ""
	}
	a := filepath.Join(kdir, "variant-undeletable")
	if err := vfCopyDir(kout, a); err != nil {
		return ""
	}
	for _, n := range vfStubbornNames {
		os.MkdirAll(filepath.Join(a, n), 0755)
		os.WriteFile(filepath.Join(a, n, "keep"), []byte("x"), 0644)
	}
	if err := deleteTempFiles(a); err == nil {
		if msg := check(a, 0, "crash state next to undeletable entries that match the temporary-file pattern"); msg != "" {
			return msg
		}
	}
	os.RemoveAll(a)
	// (c) the clock was set back between the kill and the restart (a Pi has no battery-backed clock): the debris
	// carries modification times half an hour ahead of now
	f := filepath.Join(kdir, "variant-future-mtime")
	if err := vfCopyDir(kout, f); err == nil {
		ahead := time.Now().Add(30 * time.Minute)
		filepath.Walk(f, func(p string, info os.FileInfo, err error) error {
			if err == nil && !info.IsDir() {
				os.Chtimes(p, ahead, ahead)
			}
			return nil
		})
		if err := deleteTempFiles(f); err != nil {
			return fmt.Sprintf("crash state whose files carry modification times in the future: deleteTempFiles failed: %v", err)
		}
		if msg := check(f, 0, "crash state whose files carry modification times in the future (clock set back before the restart)"); msg != "" {
			return msg
		}
		os.RemoveAll(f)
	}
	// (d) the restarted daemon is itself killed inside its clean-up, on entering its k-th unlink, and started
	// again: whatever the first clean-up left must still be recognisable as debris by the next one
	if withBacklog && vfHaveStrace() {
		for k := 1; k <= 4; k++ {
			g := filepath.Join(kdir, fmt.Sprintf("variant-killed-cleanup-%d", k))
			if err := vfCopyDir(kout, g); err != nil {
				break
			}
			cmd := exec.Command("strace", "-f", "-o", filepath.Join(kdir, "strace-cleanup.log"), "-e", "trace=unlink,unlinkat",
				"-e", fmt.Sprintf("inject=unlink,unlinkat:signal=SIGKILL:when=%d", k), os.Args[0], "-test.run", "^$")
			cmd.Env = append(os.Environ(), "VERIF_C10_CLEANUP="+g, "VERIF_C10_CHILD=", "VERIF_C10_RESTART=", "GOMAXPROCS=2")
			cmd.Dir = kdir
			cmd.CombinedOutput()
			if err := deleteTempFiles(g); err != nil {
				return fmt.Sprintf("clean-up killed on entering its unlink #%d, then run again: deleteTempFiles failed: %v", k, err)
			}
			if msg := check(g, 0, fmt.Sprintf("clean-up killed on entering its unlink #%d, then run again", k)); msg != "" {
				return msg
			}
			os.RemoveAll(g)
		}
	}
	if !withBacklog {
		return ""
	}
	b := filepath.Join(kdir, "variant-backlog")
	if err := vfCopyDir(kout, b); err != nil {
		return ""
	}
	seed := vfBacklogSeed(os.Getenv("VERIF_SCRATCH"))
	const n = 2600
	for i := 0; i < n; i++ {
		os.Link(seed, filepath.Join(b, fmt.Sprintf("%s%06d.%03d.cptv", vfBacklogPrefix, i/1000, i%1000)))
	}
	if err := deleteTempFiles(b); err != nil {
		return fmt.Sprintf("crash state behind a backlog of %d finished recordings: deleteTempFiles failed: %v", n, err)
	}
	if msg := check(b, n, fmt.Sprintf("crash state behind a backlog of %d finished recordings", n)); msg != "" {
		return msg
	}
	os.RemoveAll(b)
	return ""
}

func vfC10Call(lay vfC10Layout, k int) string {
	i := lay.begin + k
	if i < len(lay.calls) {
		l := lay.calls[i]
		if len(l) > 120 {
			l = l[:120]
		}
		return l
	}
	return "-"
}

func vfGenC10(t *rapid.T) vfC10Case {
	sc := vfGenSockBase(t, rapid.Bool().Draw(t, "bad"), rapid.Bool().Draw(t, "clear"))
	sc.Cont = rapid.IntRange(0, 2).Draw(t, "cont") == 0
	// make sure there is at least one complete motion recording followed by more
	run := []vfItem{{K: vfItFrame}, {K: vfItFrame, On: true}, {K: vfItFrame, On: true}}
	for i := 0; i < sc.Min*sc.Cam.FPS+2; i++ {
		run = append(run, vfItem{K: vfItFrame})
	}
	sc.Items = append(run, sc.Items...)
	if len(sc.Items) > 90 {
		sc.Items = sc.Items[:90]
	}
	if rapid.IntRange(0, 5).Draw(t, "longheader") == 0 {
		// a camera description the CPTV header cannot carry (strings are limited to 255 bytes): every start fails
		// after the files have been created
		sc.Cam.Firmware = strings.Repeat("f", 300)
		sc.Cont = true
		if len(sc.Items) > 6 {
			sc.Items[3] = vfItem{K: vfItBad}
			sc.Items[5] = vfItem{K: vfItBad}
		}
	}
	// few streams are run per check: make the unusual output directories (names containing the recorder's own
	// extensions or glob metacharacters, symbolic links) as likely as the plain one
	if rapid.Bool().Draw(t, "hostile_out") {
		sc.OutName = rapid.SampledFrom(vfOutNames[3:]).Draw(t, "outname10")
	}
	if rapid.IntRange(0, 2).Draw(t, "linked_out") == 0 {
		sc.OutLink = rapid.IntRange(1, 2).Draw(t, "outlink10")
		if sc.OutLink == 2 {
			sc.Cont = true
		}
	}
	c := vfC10Case{Sock: sc}
	switch rapid.IntRange(0, 5).Draw(t, "preexisting") {
	case 0:
		c.Backlog = rapid.SampledFrom([]int{3, 1100, 2600}).Draw(t, "backlog")
	case 1:
		c.Stubborn = true
	}
	switch rapid.IntRange(0, 3).Draw(t, "testrec") {
	case 0:
		c.TestAt = []int{rapid.IntRange(0, len(c.Sock.Items)/2).Draw(t, "testat")}
	case 1, 2:
		// a test recording that starts with a long motion recording and finishes (21 frames) well before it:
		// later kills find a newer finished recording next to an older one still in progress
		c.Sock.Cam.FPS = 9
		c.Sock.Min, c.Sock.Max, c.Sock.Prev, c.Sock.Trigger = 2, 4, 0, 1
		items := []vfItem{{K: vfItFrame}, {K: vfItFrame}}
		for i := 0; i < 34; i++ {
			items = append(items, vfItem{K: vfItFrame, On: true})
		}
		c.Sock.Items = append(items, vfItem{K: vfItFrame}, vfItem{K: vfItFrame})
		c.TestAt = []int{rapid.IntRange(2, 5).Draw(t, "testat2")}
	}
	return c
}

func TestVF_C10(t *testing.T) {
	kit.Drive(t, "C10", "TestVF_C10",
		"generated: small Lepton/Boson streams (8x6..14x10, up to ~90 frames) with 1-3 motion recordings, optionally bad frames, 'clear' markers, a test recording and the continuous recorder, into output directories that are plain, named with the recorder's own extensions or glob metacharacters ('rec.temp', 'usb[1]/cptv', 'a*b?c', ...) or symbolic links (the directory itself / its constant-recordings sub-directory), one stream in 6 with a backlog of up to 2600 finished recordings already there, one in 6 with an undeletable entry that matches the temporary-file pattern (the clean-up may then refuse with an error, but may not report success and leave debris); in addition every crash state with debris is re-checked on copies of the directory with such undeletable entries planted and (for up to 6 states per stream) behind 2600 finished recordings, with modification times half an hour in the future (a clock set back before the restart), and - for those 6 - with the clean-up itself killed on entering each of its first four unlink calls and then run again; each stream is first run to completion in a child process under strace to number the file-system system calls (openat, write, close, lseek, rename*, unlink*, mkdir*) of the thread that runs handleConn; then the child is re-run and killed with SIGKILL on entering the k-th such call, for every k (thorough) or a stratified sample of ~40 points (quick: all points within 6 calls of every open/rename/unlink of a recording plus an even sample of the rest). Oracle on the surviving directory: every *.cptv decodes from header to exactly NumFrames frames and equals, frame for frame, the corresponding complete recording of the uncrashed run (a kill at a call boundary leaves exactly what a concurrent observer could see at that instant); for the first five crash states with debris of every stream the daemon itself is started again (the real runMain, on a private D-Bus message bus, until it listens for the camera) and the output directory must then hold nothing but those complete recordings; for all states the same is required after the real deleteTempFiles. Non-trivial: a stream with at least one crash point at which a recording was in progress (temporary artefacts present). Evaluations count the individual kills (plus one per stream); non-trivial ones are the kills at which a recording was in progress, distinct by (stream, crash point).",
		vfGenC10, vfRunC10)
}


func vfHaveStrace() bool {
	_, err := exec.LookPath("strace")
	return err == nil
}

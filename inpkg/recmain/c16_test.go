//go:build verif

package main

import (
	"fmt"
	"os"
	"path/filepath"
	"runtime"
	"strings"
	"sync"
	"sync/atomic"
	"testing"
	"time"

	"github.com/TheCacophonyProject/go-cptv/cptvframe"
	"github.com/TheCacophonyProject/thermal-recorder/headers"
	"github.com/godbus/dbus"
	"pgregory.net/rapid"
	kit "verifkit"
)

// C16: snapshots / test-recording requests / CameraInfo concurrently with frame processing.
// Run from the race-instrumented build of this package; the driver turns race reports into violations.

const (
	vfRqSnap  = 0 // newSnapshot(-1)
	vfRqSnapL = 1 // newSnapshot(last id seen)
	vfRqRec   = 2 // TakeTestRecording
	vfRqInfo  = 3 // CameraInfo
	vfRqSpin  = 4
	vfRqYield = 5
	vfRqSleep = 6
)

type vfRq struct {
	K int `json:"k"`
	N int `json:"n,omitempty"`
}

type vfC16Conn struct {
	Frames []bool `json:"frames"` // motion bit per frame
	Clears []int  `json:"clears,omitempty"`
	Pause  []int  `json:"pause,omitempty"` // frame indices before which the sender pauses at the barrier
	Bad    []int  `json:"bad,omitempty"`   // frame indices before which a bad frame (zero interior pixel) is sent
	// ClearAfterBad: every bad frame is followed by a 'clear' marker (the camera daemon restarts the camera
	// after a bad frame and announces it), then the sender pauses before the next good frame
	ClearAfterBad bool `json:"clear_after_bad,omitempty"`
	// Tail: the connection dies inside a frame (this many bytes of one more frame, of a value never completed,
	// are sent before it closes; at most all but one), then the camera stays away for a moment
	Tail int `json:"tail,omitempty"`
}

type vfC16Case struct {
	Procs      int         `json:"gomaxprocs"`
	Prev, Trig int
	FPS        int
	Cont       bool
	Conns      []vfC16Conn `json:"conns"`
	Req        [][]vfRq    `json:"requesters"`
	WarmStart  bool        `json:"warm_start"` // requesters start only after the first frame of the first connection
}

func vfGenC16(t *rapid.T) vfC16Case {
	c := vfC16Case{}
	c.Procs = rapid.SampledFrom([]int{1, 2, 4, 16}).Draw(t, "procs")
	c.FPS = rapid.SampledFrom([]int{2, 3, 9}).Draw(t, "fps")
	c.Prev = rapid.IntRange(0, 1).Draw(t, "prev")
	c.Trig = rapid.IntRange(1, 2).Draw(t, "trig")
	// ring capacity 1 (preview 0, trigger-frames 1) included: 'recent' is then the very slot being received
	c.Cont = rapid.Bool().Draw(t, "cont")
	nreq := rapid.IntRange(1, 4).Draw(t, "nreq")
	hasRec := false
	_ = hasRec
	for i := 0; i < nreq; i++ {
		var s []vfRq
		for j := rapid.IntRange(1, 8).Draw(t, "len"); j > 0; j-- {
			k := rapid.SampledFrom([]int{0, 0, 0, 1, 2, 3, 3, 4, 5, 6}).Draw(t, "rq")
			n := 0
			switch k {
			case vfRqSpin:
				n = rapid.IntRange(1, 20000).Draw(t, "spin")
			case vfRqSleep:
				n = rapid.IntRange(1, 800).Draw(t, "us")
			}
			if k == vfRqRec {
				hasRec = true
			}
			s = append(s, vfRq{K: k, N: n})
		}
		c.Req = append(c.Req, s)
	}
	nconn := rapid.IntRange(1, 3).Draw(t, "nconn")
	for i := 0; i < nconn; i++ {
		cn := vfC16Conn{}
		n := rapid.IntRange(3, 40).Draw(t, "nframes")
		for j := 0; j < n; j++ {
			cn.Frames = append(cn.Frames, rapid.IntRange(0, 2).Draw(t, "m") == 0)
		}
		if rapid.IntRange(0, 2).Draw(t, "clear") == 0 {
			cn.Clears = append(cn.Clears, rapid.IntRange(0, n).Draw(t, "clearat"))
		}
		if rapid.IntRange(0, 3).Draw(t, "hasbad") == 0 {
			// bad frames, in particular as the very first frame of a connection
			cn.Bad = append(cn.Bad, rapid.SampledFrom([]int{0, 0, 1, n / 2}).Draw(t, "badat"))
			if rapid.IntRange(0, 2).Draw(t, "bad_more") == 0 {
				cn.Bad = append(cn.Bad, rapid.IntRange(0, n-1).Draw(t, "badat2"))
			}
			cn.ClearAfterBad = rapid.IntRange(0, 2).Draw(t, "clear_after_bad") > 0
		}
		cn.Tail = rapid.SampledFrom([]int{0, 0, 6, 64, 1 << 20}).Draw(t, "tail")
		for j := rapid.IntRange(0, 3).Draw(t, "npause"); j > 0; j-- {
			cn.Pause = append(cn.Pause, rapid.IntRange(0, n-1).Draw(t, "pauseat"))
		}
		c.Conns = append(c.Conns, cn)
	}
	c.WarmStart = rapid.Bool().Draw(t, "warm")
	return c
}

func vfC16Valid(c vfC16Case) string {
	if c.Procs < 1 || c.Procs > 64 || c.FPS < 1 || c.FPS > 30 || c.Prev < 0 || c.Trig < 0 || c.Prev*c.FPS+c.Trig < 1 || len(c.Conns) < 1 || len(c.Conns) > 6 || len(c.Req) > 8 {
		return "outside the domain"
	}
	total := 0
	for _, cn := range c.Conns {
		total += len(cn.Frames)
	}
	if total > 300 {
		return "too many frames"
	}
	return ""
}

// vfC16Remote, when set, is the address of a private message bus: requesters then call the exported service
// over their own D-Bus connections instead of calling the service methods directly.
var vfC16Remote string

type vfHeld struct {
	f *cptvframe.Frame
	v uint16
}

type vfC16Obs struct {
	msg       string
	snaps     int64
	unknown   int64 // remote calls answered with 'no such service / object / method'
	remote    int64 // remote calls made
	overlaps  int64
	finished  [][]int // continuous / motion files as uniform values
	contFiles [][]int
}

var vfC16Cam = vfCamDesc{Brand: "flir", Model: "lepton3", Firmware: "1.0.0", W: 8, H: 6}

func vfC16Value(conns []vfC16Conn) [][]uint16 {
	v := uint16(1000)
	out := make([][]uint16, len(conns))
	for i, cn := range conns {
		for _, m := range cn.Frames {
			if m {
				v += 200
			} else {
				v++
			}
			out[i] = append(out[i], v)
		}
	}
	return out
}

// vfC16Run plays the connections; withReq=false is the request-free twin.
func vfC16Run(c vfC16Case, withReq bool) *vfC16Obs {
	o := &vfC16Obs{}
	dir, err := os.MkdirTemp(os.Getenv("VERIF_SCRATCH"), "c16-")
	if err != nil {
		panic(err)
	}
	defer os.RemoveAll(dir)
	out := filepath.Join(dir, "out")
	os.Mkdir(out, 0755)
	m := vfSimpleMotion(c.Trig, 1)
	m.TempThresh = vfIP(500)
	conf := vfConf{DeviceName: "c16", Min: 1, Max: 2, Prev: c.Prev, Cont: c.Cont, MinDiskMB: 1, BucketS: 600, RefillS: 600, WinStart: "12:00", WinEnd: "12:00", Motion: m}
	if err := vfWriteConfig(dir, out, conf); err != nil {
		panic(err)
	}
	vfResetGlobals()
	vfQuietLogs()
	values := vfC16Value(c.Conns)
	var completedValue int64 // uniform value of the newest frame whose processing is known to be complete (0: none)
	var inFlight int32       // 1 while a frame has been released and not yet seen complete
	// quiet: non-zero (a window number) while the sender waits at the barrier and the last thing the connection
	// delivered was a good frame that has been processed completely: a snapshot request that starts and ends
	// inside one such window has no excuse to fail
	var quiet, quietSeq int64
	var quietNum int64 // the processor's frame number during the quiet window
	var stop int32
	var fail atomic.Value
	setFail := func(s string) {
		if fail.Load() == nil {
			fail.Store(s)
		}
	}
	sentSerial := map[int]bool{}
	var serialMu sync.Mutex
	var wg sync.WaitGroup
	started := make(chan struct{})
	svc := &service{}
	if withReq {
		for ri, script := range c.Req {
			wg.Add(1)
			go func(ri int, script []vfRq) {
				defer wg.Done()
				defer func() {
					if p := recover(); p != nil {
						setFail(fmt.Sprintf("requester %d panicked: %v", ri, p))
					}
				}()
				var remote dbus.BusObject
				if vfC16Remote != "" {
					conn, err := vfDialBus(vfC16Remote)
					if err != nil {
						setFail("INFRA: cannot connect to the private bus: " + err.Error())
						return
					}
					defer conn.Close()
					remote = conn.Object(dbusName, dbus.ObjectPath(dbusPath))
				}
				takeSnapshot := func(arg int) (*cptvframe.Frame, error) {
					if remote == nil {
						return newSnapshot(arg)
					}
					f := new(cptvframe.Frame)
					atomic.AddInt64(&o.remote, 1)
					if err := remote.Call(dbusName+".TakeSnapshot", 0, arg).Store(f); err != nil {
						if de, ok := err.(dbus.Error); ok && (strings.Contains(de.Name, "UnknownMethod") || strings.Contains(de.Name, "UnknownObject") || strings.Contains(de.Name, "ServiceUnknown") || strings.Contains(de.Name, "UnknownInterface")) {
							atomic.AddInt64(&o.unknown, 1)
						}
						return nil, err
					}
					return f, nil
				}
				if c.WarmStart {
					<-started
				}
				last := -1
				sink := 0
				var held []vfHeld
				for atomic.LoadInt32(&stop) == 0 {
					for _, rq := range script {
						if atomic.LoadInt32(&stop) != 0 {
							break
						}
						switch rq.K {
						case vfRqSnap, vfRqSnapL:
							need := atomic.LoadInt64(&completedValue)
							over := atomic.LoadInt32(&inFlight)
							q1 := atomic.LoadInt64(&quiet)
							qn := atomic.LoadInt64(&quietNum)
							arg := -1
							if rq.K == vfRqSnapL {
								arg = last
							}
							f, err := takeSnapshot(arg)
							if err != nil || f == nil {
								if q1 != 0 && q1 == atomic.LoadInt64(&quiet) && rq.K == vfRqSnapL && arg >= 0 && int64(uint32(arg)) != qn {
									setFail(fmt.Sprintf("TakeSnapshot(%d) failed (%v) although the most recent completely processed frame has number %d, nothing had arrived since and the sender was waiting: a frame newer than the one the client holds was there to be returned", arg, err, qn))
								}
								if q1 != 0 && q1 == atomic.LoadInt64(&quiet) && rq.K == vfRqSnap {
									setFail(fmt.Sprintf("TakeSnapshot failed (%v) although the frame with value %d of this connection had been processed completely, nothing had arrived since and the sender was waiting: a whole frame was there to be returned", err, need))
								}
								continue
							}
							atomic.AddInt64(&o.snaps, 1)
							if over != 0 {
								atomic.AddInt64(&o.overlaps, 1)
							}
							v := f.Pix[0][0]
							for y := range f.Pix {
								for x := range f.Pix[y] {
									if f.Pix[y][x] != v {
										setFail(fmt.Sprintf("snapshot is a mixture of frames: pixel (0,0)=%d but (%d,%d)=%d", v, x, y, f.Pix[y][x]))
									}
								}
							}
							// an exact copy stays what it was: keep it and look again later, after the ring has wrapped
							held = append(held, vfHeld{f, v})
							if len(held) > 48 {
								held = held[1:]
							}
							for _, h := range held {
								for y := range h.f.Pix {
									for x := range h.f.Pix[y] {
										if h.f.Pix[y][x] != h.v {
											setFail(fmt.Sprintf("a snapshot that showed the frame with value %d when it was returned later shows %d at (%d,%d): it is not a copy, it aliases the frame buffer", h.v, h.f.Pix[y][x], x, y))
										}
									}
								}
							}
							if int64(v) < need {
								setFail(fmt.Sprintf("snapshot returned the frame with value %d although the frame with value %d had been processed completely when the request was made (stale, or never received if below 1001)", v, need))
							}
							last = f.Status.FrameCount
						case vfRqRec:
							if remote != nil {
								remote.Call(dbusName+".TakeTestRecording", 0)
							} else {
								svc.TakeTestRecording()
							}
						case vfRqInfo:
							var info map[string]interface{}
							var derr *dbus.Error
							if remote != nil {
								vm := map[string]dbus.Variant{}
								if err := remote.Call(dbusName+".CameraInfo", 0).Store(&vm); err != nil {
									continue
								}
								info = map[string]interface{}{}
								for k, v := range vm {
									switch x := v.Value().(type) {
									case int32:
										info[k] = int(x)
									default:
										info[k] = x
									}
								}
							} else {
								info, derr = svc.CameraInfo()
							}
							if derr == nil {
								serialMu.Lock()
								ok := sentSerial[info[headers.Serial].(int)]
								serialMu.Unlock()
								if !ok || info[headers.XResolution].(int) != vfC16Cam.W || info[headers.YResolution].(int) != vfC16Cam.H || info[headers.Model].(string) != vfC16Cam.Model {
									setFail(fmt.Sprintf("CameraInfo returned a description no camera sent: %v", info))
								}
							}
						case vfRqSpin:
							for i := 0; i < rq.N; i++ {
								sink += i
							}
						case vfRqYield:
							runtime.Gosched()
						case vfRqSleep:
							time.Sleep(time.Duration(rq.N) * time.Microsecond)
						}
					}
					runtime.Gosched()
				}
				_ = sink
			}(ri, script)
		}
	}
	startedOnce := false
	conf2, err := ParseConfig(dir)
	if err != nil {
		o.msg = "ParseConfig: " + err.Error()
		return o
	}
	id := 0
	for ci, cn := range c.Conns {
		cam := vfC16Cam
		cam.FPS = c.FPS
		cam.Serial = 100 + ci
		serialMu.Lock()
		sentSerial[cam.Serial] = true
		serialMu.Unlock()
		conn := vfStartConnWith(conf2)
		if err := conn.Write(vfHeaderBytes(cam)); err != nil {
			o.msg = fmt.Sprintf("connection %d: %v", ci, err)
			break
		}
		pause := map[int]bool{}
		for _, p := range cn.Pause {
			pause[p] = true
		}
		bad := map[int]bool{}
		for _, p := range cn.Bad {
			bad[p] = true
		}
		clear := map[int]bool{}
		for _, p := range cn.Clears {
			clear[p] = true
		}
		var prevValue int64
		prevGood := false
		for fi := range cn.Frames {
			if clear[fi] {
				if err := conn.Write([]byte("clear")); err != nil {
					o.msg = fmt.Sprintf("connection %d: %v", ci, err)
					break
				}
			}
			if bad[fi] {
				bp := make([]uint16, cam.W*cam.H)
				for p := range bp {
					bp[p] = 7
				}
				bp[2*cam.W+3] = 0
				if err := conn.SendFrame(vfRawFrame(cam, bp, uint32(60000+111*id), 0, 0), nil); err != nil {
					o.msg = fmt.Sprintf("connection %d: %v", ci, err)
					break
				}
				if cn.ClearAfterBad {
					if err := conn.Write([]byte("clear")); err != nil {
						o.msg = fmt.Sprintf("connection %d: %v", ci, err)
						break
					}
					pause[fi] = true
				}
				prevGood = false
			}
			v := values[ci][fi]
			pix := make([]uint16, cam.W*cam.H)
			for p := range pix {
				pix[p] = v
			}
			raw := vfRawFrame(cam, pix, uint32(60000+111*id), 0, uint32(id+1))
			id++
			err := conn.SendFrame(raw, func() {
				// barrier: the previous frame has been processed completely
				atomic.StoreInt32(&inFlight, 0)
				if prevValue != 0 {
					atomic.StoreInt64(&completedValue, prevValue)
				}
				if !startedOnce && prevValue != 0 {
					startedOnce = true
					close(started)
				}
				if prevGood {
					mu.Lock()
					if processor != nil {
						atomic.StoreInt64(&quietNum, int64(processor.CurrentFrame))
					}
					mu.Unlock()
					quietSeq++
					atomic.StoreInt64(&quiet, quietSeq)
				}
				if pause[fi] {
					time.Sleep(300 * time.Microsecond)
				}
				atomic.StoreInt64(&quiet, 0)
				atomic.StoreInt32(&inFlight, 1)
			})
			if err != nil {
				o.msg = fmt.Sprintf("connection %d frame %d: the recording pipeline stalled or died: %v", ci, fi, err)
				break
			}
			prevValue = int64(v)
			prevGood = true
		}
		if cn.Tail > 0 && o.msg == "" {
			pix := make([]uint16, cam.W*cam.H)
			for p := range pix {
				pix[p] = 999 // never the value of a complete frame (those start at 1001)
			}
			raw := vfRawFrame(cam, pix, uint32(60000+111*id), 0, uint32(id+1))
			n := cn.Tail
			if n > len(raw)-1 {
				n = len(raw) - 1
			}
			conn.Write(raw[:n])
		}
		cerr := conn.Close()
		if cn.Tail > 0 {
			time.Sleep(500 * time.Microsecond) // the camera is away: requests meet what the dead connection left behind
		}
		atomic.StoreInt32(&inFlight, 0)
		if prevValue != 0 {
			atomic.StoreInt64(&completedValue, prevValue)
		}
		if o.msg != "" {
			break
		}
		if cerr == nil || !strings.Contains(cerr.Error(), "EOF") {
			o.msg = fmt.Sprintf("connection %d: handleConn ended with %v", ci, cerr)
			break
		}
	}
	if !startedOnce {
		close(started)
	}
	atomic.StoreInt32(&stop, 1)
	// requesters blocked on the snapshot mutex (the pipeline died while holding it) never come back
	waited := make(chan struct{})
	go func() { wg.Wait(); close(waited) }()
	select {
	case <-waited:
	case <-time.After(30 * time.Second):
		setFail("service requests are blocked for good: the frame loop stopped while holding the snapshot lock")
	}
	if s := fail.Load(); s != nil && o.msg == "" {
		o.msg = s.(string)
	}
	if o.msg != "" {
		return o
	}
	read := func(d string) ([][]int, string) {
		var res [][]int
		for _, n := range vfListDir(d) {
			if !strings.HasSuffix(n, ".cptv") {
				continue
			}
			f, err := vfReadCPTV(filepath.Join(d, n))
			if err != nil {
				return nil, fmt.Sprintf("finished recording %s does not decode: %v", n, err)
			}
			var l []int
			for i, fr := range f.Frames {
				if i == 0 {
					continue
				}
				for _, p := range fr.Pix {
					if p != fr.Pix[0] {
						return nil, fmt.Sprintf("recording %s frame %d is not one of the frames that were sent", n, i)
					}
				}
				l = append(l, int(fr.Pix[0]))
			}
			res = append(res, l)
		}
		return res, ""
	}
	o.finished, o.msg = read(out)
	if o.msg == "" && c.Cont {
		o.contFiles, o.msg = read(filepath.Join(out, "constant-recordings"))
	}
	return o
}

func vfRunC16(c vfC16Case) *kit.Result {
	r := &kit.Result{}
	if msg := vfC16Valid(c); msg != "" {
		r.Failf("malformed case: %s", msg)
		return r
	}
	old := runtime.GOMAXPROCS(c.Procs)
	defer runtime.GOMAXPROCS(old)
	if c.Cont && !vfDiskRoomy(vfScratchDir()) {
		c.Cont = false
	}
	a := vfC16Run(c, true)
	if a.msg != "" {
		r.Failf("%s", a.msg)
		return r
	}
	b := vfC16Run(c, false)
	if b.msg != "" {
		r.Failf("request-free twin: %s", b.msg)
		return r
	}
	if fmt.Sprint(a.contFiles) != fmt.Sprint(b.contFiles) {
		r.Failf("continuous recordings differ from the run without requests:\n   with: %v\nwithout: %v", a.contFiles, b.contFiles)
		return r
	}
	// motion files: every file of the request-free run must be present unchanged; the only additional
	// files are test recordings (at most 21 consecutive frames)
	want := map[string]int{}
	for _, f := range b.finished {
		want[fmt.Sprint(f)]++
	}
	for _, f := range a.finished {
		k := fmt.Sprint(f)
		if want[k] > 0 {
			want[k]--
			continue
		}
		if len(f) != 21 {
			r.Failf("a recording that the request-free run does not produce holds %d frames (%v): requests disturbed the recording pipeline", len(f), f)
			return r
		}
	}
	for k, n := range want {
		if n > 0 {
			r.Failf("motion recording %s of the request-free run is missing or altered when requests are served", k)
			return r
		}
	}
	if a.remote >= 3 && a.unknown == a.remote {
		r.Failf("all %d TakeSnapshot calls made over D-Bus were answered with 'unknown service / object / method': the service's methods are not reachable on the bus after startService", a.remote)
		return r
	}
	r.Count("snapshots_returned", int(a.snaps))
	r.Count("snapshots_overlapping_processing", int(a.overlaps))
	if len(c.Conns) > 1 {
		r.Class("reconnect")
	}
	if c.Prev*c.FPS+c.Trig == 1 {
		r.Class("ring_capacity_1")
	}
	r.Class(fmt.Sprintf("gomaxprocs=%d", c.Procs))
	if a.overlaps > 0 {
		r.Class("request_overlapped_processing")
	}
	r.NT = a.overlaps > 0 && a.snaps > 0
	return r
}

func TestVF_C16(t *testing.T) {
	kit.Drive(t, "C16", "TestVF_C16",
		"generated schedules: 1-4 requester goroutines looping over scripts of {TakeSnapshot(-1 / last id), TakeTestRecording, CameraInfo, spin, yield, sleep} while 1-3 camera connections (reconnects, 'clear' markers, bad frames - also as the first frame of a connection, also followed by a 'clear' -, connections that die inside a frame, sender pauses at the lock-step barrier) feed uniform-valued frames of increasing value, GOMAXPROCS in {1,2,4,16}, ring capacity 1 and up; built with the race detector. Oracle: every returned snapshot is uniform (a whole frame), stays unchanged while later frames arrive (an exact copy, re-checked after the ring has wrapped), and is at least as new as the newest frame known to be completely processed when the request started; a TakeSnapshot(-1), or a TakeSnapshot(n) with n different from the processor's current frame number, that starts and ends while the sender waits at the barrier after a completely processed good frame must succeed; CameraInfo returns a description some camera sent; the pipeline neither stalls nor dies; continuous files equal the request-free twin and every motion file of the twin is present unchanged (extra files are 21-frame test recordings); zero race reports. Non-trivial: a snapshot was returned for a request that overlapped the processing of a frame (measured with atomics around the barrier).",
		vfGenC16, vfRunC16)
}

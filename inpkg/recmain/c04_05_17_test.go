//go:build verif

package main

import (
	"fmt"
	"io"
	"log"
	"os"
	"path/filepath"
	"strings"
	"syscall"
	"testing"
	"time"

	"pgregory.net/rapid"
	kit "verifkit"
)

// End-to-end scenario checks on the real handleConn + CPTVFileRecorder:
//   C04: storage gates (min-disk-space, output directory missing) and the recording window from config.toml
//   C05: throttling wired with min-secs+preview-secs as the minimum length; activate=false bypasses it
//   C17: continuous files and test recordings on decoded files, independent of window and throttling

type vfScenCase struct {
	Sock vfSockCase `json:"sock"`
	// C04
	HugeDisk   bool  `json:"huge_min_disk,omitempty"` // min-disk-space-mb = twice the space that is free right now
	// HugeDiskMB (with HugeDisk): the setting itself, for values no disk can have (2^40 .. 2^62 MB, +1)
	HugeDiskMB int64 `json:"huge_min_disk_mb,omitempty"`
	HalfDisk   bool  `json:"half_min_disk,omitempty"` // min-disk-space-mb = half the space that is free right now
	MidDisk    bool  `json:"mid_min_disk,omitempty"`  // min-disk-space-mb between the space available to the daemon and the space free incl. the root reserve
	SplitAt    int   `json:"split_at,omitempty"`      // item index at which the camera reconnects (0: single connection)
	RemoveAt   int   `json:"remove_at,omitempty"`     // item index at whose barrier the output directory is moved away (0: never)
	RestoreAt  int   `json:"restore_at,omitempty"`    // item index at whose barrier it is moved back
	WindowKind int   `json:"window_kind,omitempty"`   // 0 none, 1 window containing now, 2 window excluding now
	// C05
	Throttle bool `json:"throttle,omitempty"`
	BucketS  int  `json:"bucket_s,omitempty"`
	RefillS  int  `json:"refill_s,omitempty"`
	// C17
	TestAt []int `json:"test_at,omitempty"` // item indices at whose barrier a test recording is requested
	// LocalClock: the local time zone is set so that the wall clock reads 12:59:58.8 (1) or 00:59:58.8 (2) when
	// the stream starts, and the sender waits for the hour to pass half-way through it (no recording window)
	LocalClock int `json:"local_clock,omitempty"`
}

func vfWindowStrings(kind int) (string, string) {
	now := time.Now().UTC()
	hhmm := func(t time.Time) string { return t.Format("15:04") }
	switch kind {
	case 1:
		return hhmm(now.Add(-3 * time.Hour)), hhmm(now.Add(3 * time.Hour))
	case 2:
		return hhmm(now.Add(3 * time.Hour)), hhmm(now.Add(6 * time.Hour))
	}
	return "12:00", "12:00"
}

type vfScenOut struct {
	err     string
	motion  [][]int
	cont    [][]int
	all     [][]int // every finished file of the top-level output directory
	logs    string
	connErr error
	elapsed time.Duration
}

// vfRunScen drives one connection in lock step with the scenario's actions at the barriers.
func vfRunScen(c vfScenCase) *vfScenOut {
	o := &vfScenOut{}
	sc := c.Sock
	dir, err := os.MkdirTemp(os.Getenv("VERIF_SCRATCH"), "scen-")
	if err != nil {
		panic(err)
	}
	defer os.RemoveAll(dir)
	out := sc.makeOut(dir)
	away := filepath.Join(dir, "out-away")
	ws, we := vfWindowStrings(c.WindowKind)
	conf := vfConf{DeviceName: "scen", Min: sc.Min, Max: sc.Max, Prev: sc.Prev, Cont: sc.Cont, MinDiskMB: 1, Throttle: c.Throttle, BucketS: c.BucketS, RefillS: c.RefillS,
		WinStart: ws, WinEnd: we, Motion: sc.motionConf(), Lat: -43.5, Lon: 172.6}
	if c.HugeDisk || c.HalfDisk || c.MidDisk {
		var fs syscall.Statfs_t
		if err := syscall.Statfs(dir, &fs); err != nil {
			o.err = "statfs: " + err.Error()
			return o
		}
		free := int64(fs.Bavail*uint64(fs.Bsize)) / 1024 / 1024
		withReserve := int64(fs.Bfree*uint64(fs.Bsize)) / 1024 / 1024
		switch {
		case c.HugeDisk && c.HugeDiskMB > 2*free+10:
			conf.MinDiskMB = c.HugeDiskMB
		case c.HugeDisk:
			conf.MinDiskMB = 2*free + 10
		case c.MidDisk && withReserve > free+free/20:
			conf.MinDiskMB = (free + withReserve) / 2 // more than is available to the daemon: must refuse
		case c.MidDisk:
			conf.MinDiskMB = 2*free + 10 // no reserve on this file system: same as HugeDisk
		default:
			conf.MinDiskMB = free / 2
		}
	}
	if conf.BucketS == 0 {
		conf.BucketS, conf.RefillS = 600, 600
	}
	if err := vfWriteConfig(dir, out, conf); err != nil {
		panic(err)
	}
	vfResetGlobals()
	vfQuietLogs()
	lb := &vfLogBuf{}
	conn, parsed, err := vfStartConn(dir)
	if conn != nil {
		conn.fast = c.Sock.Fast
	}
	if err != nil {
		o.err = "ParseConfig: " + err.Error()
		return o
	}
	// the recording window is judged against the wall clock: whatever clock the parsed configuration carries for
	// it must read the time of day as it is
	if wnow := parsed.Recorder.Window.Now; wnow != nil {
		if d := wnow().Sub(time.Now()); d > 2*time.Second || d < -2*time.Second {
			conn.Close()
			o.err = fmt.Sprintf("the recording window's clock (set while the configuration was parsed) reads %v, the wall clock %v: the window would be judged %v off", wnow().Format("15:04:05.000"), time.Now().Format("15:04:05.000"), d)
			return o
		}
	}
	logSet(lb)
	defer logSet(discard{})
	testAt := map[int]bool{}
	for _, i := range c.TestAt {
		testAt[i] = true
	}
	if c.LocalClock > 0 {
		utc := time.Now().UTC()
		sod := utc.Hour()*3600 + utc.Minute()*60 + utc.Second()
		target := 12*3600 + 59*60 + 58
		if c.LocalClock == 2 {
			target = 59*60 + 58
		}
		off := target - sod
		for off <= -12*3600 {
			off += 24 * 3600
		}
		for off > 14*3600 {
			off -= 24 * 3600
		}
		oldLocal := time.Local
		time.Local = time.FixedZone("vf", off)
		defer func() { time.Local = oldLocal }()
	}
	t0 := time.Now()
	if err := conn.Write(vfHeaderBytes(sc.Cam)); err != nil {
		o.err = err.Error()
		conn.Close()
		return o
	}
	level := false
	id := 0
	for i, it := range sc.Items {
		if c.LocalClock > 0 && i == len(sc.Items)/2 {
			// wait for the local clock to pass the full hour
			for time.Now().In(time.Local).Minute() == 59 {
				time.Sleep(20 * time.Millisecond)
			}
		}
		if c.SplitAt > 0 && i == c.SplitAt {
			// the camera daemon reconnects: same daemon, same output directory, new connection
			if cerr := conn.Close(); cerr == nil || !strings.Contains(cerr.Error(), "EOF") {
				o.err = fmt.Sprintf("first connection ended with %v, want EOF", cerr)
				return o
			}
			conn = vfStartConnWith(parsed)
			conn.fast = c.Sock.Fast
			if err := conn.Write(vfHeaderBytes(sc.Cam)); err != nil {
				o.err = err.Error()
				conn.Close()
				return o
			}
		}
		var raw []byte
		switch it.K {
		case vfItFrame:
			if it.On {
				level = !level
			}
			raw, _ = vfSockFrame(sc, id, level, false)
			id++
		case vfItBad:
			raw, _ = vfSockFrame(sc, 1599, !level, true)
		case vfItClear:
			if err := conn.Write([]byte("clear")); err != nil {
				o.err = err.Error()
				conn.Close()
				return o
			}
			continue
		}
		err := conn.SendFrame(raw, func() {
			if c.RemoveAt > 0 && i == c.RemoveAt {
				os.Rename(out, away)
			}
			if c.RestoreAt > 0 && i == c.RestoreAt {
				os.Rename(away, out)
			}
			if testAt[i] {
				newSnapshotRecording()
			}
		})
		if err != nil {
			o.connErr = conn.Close()
			o.err = fmt.Sprintf("stream could not be delivered: %v; handleConn: %v", err, o.connErr)
			return o
		}
	}
	o.connErr = conn.Close()
	o.elapsed = time.Since(t0)
	o.logs = lb.String()
	if _, err := os.Stat(out); err != nil {
		os.Rename(away, out)
	}
	read := func(d string) ([][]int, string) {
		var res [][]int
		for _, n := range vfListDir(d) {
			if !strings.HasSuffix(n, ".cptv") {
				continue
			}
			f, err := vfReadCPTV(filepath.Join(d, n))
			if err != nil {
				return nil, fmt.Sprintf("finished recording %s does not decode: %v", n, err)
			}
			// every recording, of whatever kind, carries the motion configuration in force for this camera
			mcText := f.R.MotionConfig()
			for _, want := range []string{fmt.Sprintf("triggerframes: %d\n", sc.Trigger), fmt.Sprintf("edgepixels: %d\n", sc.Edge), "deltathresh: 50\n", "countthresh: 1\n", "tempthresh: 1000\n"} {
				if !strings.Contains(mcText, want) {
					return nil, fmt.Sprintf("recording %s in %s: the motion configuration in its header lacks %q (the settings in force for this connection); header text: %q", n, filepath.Base(d), strings.TrimSpace(want), mcText)
				}
			}
			var l []int
			for k, fr := range f.Frames {
				if k > 0 {
					l = append(l, vfSockID(sc, fr.Pix))
				}
			}
			res = append(res, l)
		}
		return res, ""
	}
	o.all, o.err = read(out)
	if o.err == "" && sc.Cont {
		o.cont, o.err = read(filepath.Join(out, "constant-recordings"))
	}
	return o
}

func logSet(w io.Writer) {
	if os.Getenv("VERIF_VERBOSE") == "" {
		log.SetOutput(w)
	}
}

// vfScenModel: the reference model with storage refusals while the directory is away / the disk "full",
// and the window gate.
func vfScenModel(c vfScenCase) kit.MResult {
	if c.SplitAt <= 0 || c.SplitAt >= len(c.Sock.Items) {
		return vfScenModelPart(c, 0, len(c.Sock.Items))
	}
	// every connection gets a fresh processor; frame ids run on
	a := vfScenModelPart(c, 0, c.SplitAt)
	b := vfScenModelPart(c, c.SplitAt, len(c.Sock.Items))
	shift := func(recs []kit.MRecording) []kit.MRecording {
		for i := range recs {
			ids := make([]int, len(recs[i].IDs))
			for j, v := range recs[i].IDs {
				ids[j] = v + a.Accepted
			}
			recs[i].IDs = ids
		}
		return recs
	}
	a.Motion = append(a.Motion, shift(b.Motion)...)
	a.Continuous = append(a.Continuous, shift(b.Continuous)...)
	a.Test = append(a.Test, shift(b.Test)...)
	a.Accepted += b.Accepted
	return a
}

func vfScenModelPart(c vfScenCase, from, to int) kit.MResult {
	sc := c.Sock
	var evs []kit.MEvent
	first := true
	refused := false
	for i, it := range sc.Items {
		if c.RemoveAt > 0 && i == c.RemoveAt {
			refused = true
		}
		if c.RestoreAt > 0 && i == c.RestoreAt {
			refused = false
		}
		if i < from || i >= to {
			continue
		}
		for _, q := range c.TestAt {
			if q == i && it.K != vfItClear {
				evs = append(evs, kit.MEvent{Kind: kit.MEvTest})
			}
		}
		switch it.K {
		case vfItFrame:
			evs = append(evs, kit.MEvent{Kind: kit.MEvFrame, Motion: it.On && !first, WinOpen: c.WindowKind != 2, Refuse: refused || c.HugeDisk || c.MidDisk || len(c.Sock.Cam.Firmware) > 255})
			first = false
		case vfItBad:
			evs = append(evs, kit.MEvent{Kind: kit.MEvBad})
		case vfItClear:
			evs = append(evs, kit.MEvent{Kind: kit.MEvReset})
			first = true
		}
	}
	return kit.RunModel(kit.MConfig{PreTrigger: sc.Prev*sc.Cam.FPS + sc.Trigger - 1, Trigger: sc.Trigger, MinFrames: sc.Min * sc.Cam.FPS, MaxFrames: sc.Max * sc.Cam.FPS, Continuous: sc.Cont}, evs)
}

// vfSplitFiles separates the top-level files into motion recordings (as the model predicts) and the rest.
func vfMatchFiles(got [][]int, want [][]int) (extra [][]int, missing [][]int) {
	avail := map[string]int{}
	for _, w := range want {
		avail[fmt.Sprint(w)]++
	}
	for _, g := range got {
		k := fmt.Sprint(g)
		if avail[k] > 0 {
			avail[k]--
		} else {
			extra = append(extra, g)
		}
	}
	for _, w := range want {
		k := fmt.Sprint(w)
		if avail[k] > 0 {
			avail[k]--
			missing = append(missing, w)
		}
	}
	return
}

// ---------------------------------------------------------------------------------------------
// C04 end to end

func vfGenC04E2E(t *rapid.T) vfScenCase {
	c := vfScenCase{Sock: vfGenSockBase(t, false, false)}
	switch rapid.IntRange(0, 4).Draw(t, "gate") {
	case 4:
		// the file can be created but not its header (a camera description the CPTV header cannot carry): every
		// start fails, none may count as started
		c.Sock.Cam.Firmware = strings.Repeat("f", 300)
	case 0:
		switch rapid.IntRange(0, 2).Draw(t, "disk") {
		case 0:
			c.HalfDisk = true
		case 1:
			c.HugeDisk = true
			if rapid.Bool().Draw(t, "astronomic") {
				c.HugeDiskMB = int64(1)<<uint(rapid.SampledFrom([]int{40, 43, 44, 45, 52, 53, 62}).Draw(t, "log2mb")) + int64(rapid.IntRange(0, 1).Draw(t, "plus1"))
			}
		default:
			c.MidDisk = true
		}
	case 1, 2:
		n := len(c.Sock.Items)
		if n > 6 {
			c.RemoveAt = rapid.IntRange(1, n-3).Draw(t, "removeat")
			c.RestoreAt = rapid.IntRange(c.RemoveAt+1, n-1).Draw(t, "restoreat")
		}
	case 3:
		c.WindowKind = rapid.IntRange(1, 2).Draw(t, "window")
	}
	return c
}

func vfScenValid(c vfScenCase) string {
	if msg := vfSockValid(c.Sock); msg != "" {
		return msg
	}
	if c.SplitAt < 0 || c.SplitAt > len(c.Sock.Items) || c.RemoveAt < 0 || c.RestoreAt < 0 || (c.RemoveAt > 0 && c.RestoreAt <= c.RemoveAt) || c.WindowKind < 0 || c.WindowKind > 2 || c.LocalClock < 0 || c.LocalClock > 2 || (c.LocalClock > 0 && c.WindowKind != 0) || len(c.Sock.Items) > 600 {
		return "bad scenario"
	}
	if c.Throttle && (c.BucketS < 1 || c.RefillS < 1 || c.Sock.Min+c.Sock.Prev < 1) {
		return "throttling needs bucket, refill and min+preview > 0"
	}
	return ""
}

func vfRunC04E2E(c vfScenCase) *kit.Result {
	r := &kit.Result{}
	if msg := vfScenValid(c); msg != "" || c.Sock.Cont || len(c.TestAt) > 0 || c.Throttle {
		r.Failf("malformed case: %s", msg)
		return r
	}
	if c.RemoveAt > 0 {
		// a recording in progress when the directory disappears cannot be finalised: keep the removal outside recordings
		free := vfScenCase{Sock: c.Sock, WindowKind: c.WindowKind}
		for _, rec := range vfScenModel(free).Motion {
			// rec.IDs are accepted ordinals == item indices here (frames only)
			if len(rec.IDs) > 0 && rec.IDs[0] <= c.RemoveAt && c.RemoveAt <= rec.IDs[len(rec.IDs)-1]+1 {
				c.RemoveAt, c.RestoreAt = 0, 0
				r.Class("removal_dropped_(inside_recording)")
				break
			}
		}
	}
	o := vfRunScen(c)
	if o.err != "" {
		r.Failf("%s", o.err)
		return r
	}
	if o.connErr == nil || !strings.Contains(o.connErr.Error(), "EOF") {
		r.Failf("handleConn ended with %v, want EOF", o.connErr)
		return r
	}
	m := vfScenModel(c)
	want := vfModelIDs(m.Motion, true)
	if got := vfIDsString(o.all); got != vfIDsString(want) {
		why := "storage OK, window open"
		switch {
		case c.HugeDisk:
			why = "min-disk-space-mb is twice the free space: no recording may start"
		case c.MidDisk:
			why = "min-disk-space-mb is above the space available to the daemon (below the free space including the root reserve): no recording may start"
		case c.HalfDisk:
			why = "min-disk-space-mb is half the free space: recordings must start"
		case c.RemoveAt > 0:
			why = fmt.Sprintf("output directory missing from item %d to %d: starts are refused there and retried on the next motion frame", c.RemoveAt, c.RestoreAt)
		case c.WindowKind == 2:
			why = "recording window closed: no recording may start"
		case c.WindowKind == 1:
			why = "recording window open"
		}
		r.Failf("finished recordings hold frames %s, want %s (%s)", got, vfIDsString(want), why)
		return r
	}
	free := vfScenCase{Sock: c.Sock}
	ungated := vfModelIDs(vfScenModel(free).Motion, true)
	refusedSome := vfIDsString(ungated) != vfIDsString(want)
	if c.HugeDisk || c.MidDisk {
		r.Class("disk_full")
	}
	if c.RemoveAt > 0 {
		r.Class("dir_removed")
	}
	r.Class(fmt.Sprintf("window_kind=%d", c.WindowKind))
	if refusedSome {
		r.Class("gate_changed_outcome")
	}
	r.NT = refusedSome
	return r
}

func TestVF_C04_E2E(t *testing.T) {
	kit.Drive(t, "C04", "TestVF_C04_E2E",
		"generated: socket streams with motion runs through the real handleConn and CPTVFileRecorder with one storage/window gate each: min-disk-space-mb set to twice / half the space available when the case runs, or between the available space and the free space including the root reserve; the output directory moved away at one lock-step barrier and back at a later one (outside any recording); a recording window from config.toml that contains / excludes the current time. Oracle: the finished files equal the reference model with starts refused while the gate is closed and retried on the next motion frame of the run. Non-trivial: the gate changed the outcome (the ungated model predicts different files).",
		vfGenC04E2E, vfRunC04E2E)
}

// ---------------------------------------------------------------------------------------------
// C05 end to end: wiring of the throttle

func vfGenC05E2E(t *rapid.T) vfScenCase {
	c := vfScenCase{Sock: vfGenSockBase(t, false, false)}
	sc := &c.Sock
	sc.Prev = rapid.IntRange(1, 2).Draw(t, "prev5") // preview > 0 so that min < min+preview
	sc.Min = rapid.IntRange(1, 2).Draw(t, "min5")
	sc.Max = sc.Min + rapid.IntRange(0, 2).Draw(t, "max5")
	c.Throttle = rapid.IntRange(0, 3).Draw(t, "activate") > 0
	sc.Cont = rapid.IntRange(0, 2).Draw(t, "cont5") == 0 // the continuous recorder is not throttled, and does not switch throttling off
	switch rapid.IntRange(0, 2).Draw(t, "bucket") {
	case 0: // min <= bucket < min+preview: with the minimum length wired correctly nothing can ever be recorded
		c.BucketS = rapid.IntRange(sc.Min, sc.Min+sc.Prev-1).Draw(t, "bucket_small")
	case 1: // exactly one minimum-length recording
		c.BucketS = sc.Min + sc.Prev
	default:
		c.BucketS = sc.Min + sc.Prev + rapid.IntRange(1, 4).Draw(t, "bucket_more")
	}
	c.RefillS = rapid.SampledFrom([]int{3600, 600, 60}).Draw(t, "refill")
	// plenty of motion
	for i := 0; i < 3; i++ {
		for j := 0; j < (sc.Min+sc.Prev+2)*sc.Cam.FPS; j++ {
			sc.Items = append(sc.Items, vfItem{K: vfItFrame, On: j%3 != 2})
		}
		for j := 0; j < sc.Min*sc.Cam.FPS+2; j++ {
			sc.Items = append(sc.Items, vfItem{K: vfItFrame})
		}
	}
	if len(sc.Items) > 260 {
		sc.Items = sc.Items[:260]
	}
	return c
}

func vfRunC05E2E(c vfScenCase) *kit.Result {
	r := &kit.Result{}
	if msg := vfScenValid(c); msg != "" || c.RemoveAt > 0 || c.HugeDisk || c.BucketS < 1 || c.RefillS < 1 {
		r.Failf("malformed case: %s", msg)
		return r
	}
	o := vfRunScen(c)
	if o.err != "" {
		r.Failf("%s", o.err)
		return r
	}
	sc := c.Sock
	fps := sc.Cam.FPS
	total := 0
	for _, f := range o.all {
		total += len(f)
	}
	unthrottled := vfModelIDs(vfScenModel(vfScenCase{Sock: sc}).Motion, true)
	if !c.Throttle {
		if got := vfIDsString(o.all); got != vfIDsString(unthrottled) {
			r.Failf("activate=false but the finished recordings %s differ from the un-throttled model %s", got, vfIDsString(unthrottled))
			return r
		}
		r.Class("activate_false")
		r.NT = len(o.all) > 0
		return r
	}
	bucket := float64(c.BucketS * fps)
	rate := float64((sc.Min+sc.Prev)*fps) / float64(c.RefillS)
	bound := bucket + 1.01*rate*o.elapsed.Seconds() + 2
	if float64(total) > bound {
		r.Failf("throttling active: %d frames reached the recordings in %v; bucket %d s * %d fps + refill at (min+preview)=%d s per %d s allows %.1f", total, o.elapsed, c.BucketS, fps, sc.Min+sc.Prev, c.RefillS, bound)
		return r
	}
	if c.BucketS < sc.Min+sc.Prev && total > 0 {
		r.Failf("throttling active with bucket-size %d s < min-secs+preview-secs = %d s: no recording can ever start, yet %d frames were recorded %v (the minimum length must be min-secs + preview-secs)", c.BucketS, sc.Min+sc.Prev, total, o.all)
		return r
	}
	// every recorded file is a contiguous piece of one un-throttled recording (throttling only removes frames)
	for _, f := range o.all {
		ok := false
		for _, u := range unthrottled {
			if strings.Contains(fmt.Sprint(u), strings.Trim(fmt.Sprint(f), "[]")) {
				ok = true
				break
			}
		}
		if !ok && len(f) > 0 {
			// the last un-throttled recording may be unfinished in the model; accept pieces of open ones too
			for _, u := range vfScenModel(vfScenCase{Sock: sc}).Motion {
				if strings.Contains(fmt.Sprint(u.IDs), strings.Trim(fmt.Sprint(f), "[]")) {
					ok = true
				}
			}
		}
		if !ok {
			r.Failf("throttling active: recording %v is not a contiguous piece of an un-throttled recording %v", f, unthrottled)
			return r
		}
	}
	// within budget the throttle is invisible: the first recording fits the bucket => it is recorded in full
	if len(unthrottled) > 0 && c.BucketS >= sc.Min+sc.Prev && len(unthrottled[0]) <= c.BucketS*fps {
		if len(o.all) == 0 || fmt.Sprint(o.all[0]) != fmt.Sprint(unthrottled[0]) {
			r.Failf("throttling active but the budget (%d frames) suffices for the first recording %v; recorded %v", c.BucketS*fps, unthrottled[0], o.all)
			return r
		}
	}
	if c.BucketS < sc.Min+sc.Prev {
		r.Class("bucket_below_min_plus_preview")
	}
	if strings.Contains(o.logs, "throttl") {
		r.Class("throttled")
	}
	r.NT = c.BucketS < sc.Min+sc.Prev || strings.Contains(o.logs, "throttl")
	return r
}

func TestVF_C05_E2E(t *testing.T) {
	kit.Drive(t, "C05", "TestVF_C05_E2E",
		"generated: socket streams with sustained motion through the real handleConn with [thermal-throttler] activate on/off, bucket-size below / equal to / above min-secs+preview-secs, min-refill 1 min - 1 h, real clock. Oracle: activate=false => the files equal the un-throttled reference model; activate=true => frames in the files <= bucket*fps + 1.01*rate*(elapsed, measured outside-in) + 2, nothing at all is recorded when bucket-size < min-secs+preview-secs (detects a minimum length wired as min-secs only), every file is a contiguous piece of an un-throttled recording, and the first recording is complete when the bucket covers it. Non-trivial: a run that was throttled, or a bucket below the minimum length.",
		vfGenC05E2E, vfRunC05E2E)
}

// ---------------------------------------------------------------------------------------------
// C17 end to end

func vfGenC17E2E(t *rapid.T) vfScenCase {
	c := vfScenCase{Sock: vfGenSockBase(t, false, true)}
	sc := &c.Sock
	sc.Cont = true
	if rapid.IntRange(0, 3).Draw(t, "tiny") == 0 {
		// max-secs 0: every continuous file holds a single frame, files finish and start within a millisecond
		sc.Min, sc.Max, sc.Prev, sc.Fast = 0, 0, 1, true
	}
	c.WindowKind = rapid.IntRange(0, 2).Draw(t, "window")
	if rapid.IntRange(0, 19).Draw(t, "localclock") == 0 {
		c.LocalClock = rapid.IntRange(1, 2).Draw(t, "whichhour")
		c.WindowKind = 0
	}
	if rapid.Bool().Draw(t, "throttle") {
		c.Throttle = true
		c.BucketS = rapid.SampledFrom([]int{1, 2, 600}).Draw(t, "bucket")
		c.RefillS = 600
		if sc.Min+sc.Prev < 1 {
			sc.Min = 1
		}
	}
	for len(sc.Items) < 50 {
		sc.Items = append(sc.Items, vfItem{K: vfItFrame, On: rapid.IntRange(0, 3).Draw(t, "padm") == 0})
	}
	// test-recording requests at arbitrary frames, also on frames that trigger a motion recording
	// ... half of them exactly there: the items at which the model starts a motion recording
	var triggers []int
	{
		itemOf := []int{}
		for i, it := range sc.Items {
			if it.K == vfItFrame {
				itemOf = append(itemOf, i)
			}
		}
		for _, rec := range vfScenModel(vfScenCase{Sock: *sc, WindowKind: c.WindowKind}).Motion {
			if rec.TriggerID < len(itemOf) {
				triggers = append(triggers, itemOf[rec.TriggerID])
			}
		}
	}
	nreq := rapid.IntRange(0, 2).Draw(t, "nreq")
	pos := 0
	for q := 0; q < nreq; q++ {
		at := pos + rapid.IntRange(0, 20).Draw(t, "reqat")
		if rapid.Bool().Draw(t, "ontrigger") {
			for _, tr := range triggers {
				if tr >= pos {
					at = tr
					break
				}
			}
		}
		for at < len(sc.Items) && sc.Items[at].K != vfItFrame {
			at++
		}
		if at >= len(sc.Items) {
			break
		}
		c.TestAt = append(c.TestAt, at)
		// the next request only after this recording has finished
		n := 0
		for pos = at; pos < len(sc.Items) && n < 22; pos++ {
			if sc.Items[pos].K == vfItFrame {
				n++
			}
		}
	}
	if rapid.IntRange(0, 2).Draw(t, "reconnect") == 0 && len(sc.Items) > 10 {
		c.SplitAt = rapid.IntRange(3, len(sc.Items)-3).Draw(t, "splitat")
	}
	// pad to whole continuous files
	size := sc.Max*sc.Cam.FPS + 1
	n := 0
	for _, it := range sc.Items {
		if it.K == vfItFrame {
			n++
		}
	}
	for n%size != 0 {
		sc.Items = append(sc.Items, vfItem{K: vfItFrame})
		n++
	}
	return c
}

func vfRunC17E2E(c vfScenCase) *kit.Result {
	r := &kit.Result{}
	if msg := vfScenValid(c); msg != "" || !c.Sock.Cont || c.RemoveAt > 0 || c.HugeDisk {
		r.Failf("malformed case: %s", msg)
		return r
	}
	for _, it := range c.Sock.Items {
		if it.K == vfItBad {
			r.Failf("malformed case: valid frames only")
			return r
		}
	}
	for _, q := range c.TestAt {
		if q < 0 || q >= len(c.Sock.Items) || c.Sock.Items[q].K != vfItFrame {
			r.Failf("malformed case: test requests go on frames")
			return r
		}
	}
	if !vfDiskRoomy(vfScratchDir()) {
		// with less than ~30 % of the disk free the continuous recorder prunes old recordings by design: the
		// tiling cannot be observed on this machine; the case is counted but asserts nothing
		r.Class("disk_low_case_skipped")
		return r
	}
	o := vfRunScen(c)
	if o.err != "" {
		r.Failf("%s", o.err)
		return r
	}
	if o.connErr == nil || !strings.Contains(o.connErr.Error(), "EOF") {
		r.Failf("handleConn ended with %v, want EOF", o.connErr)
		return r
	}
	sc := c.Sock
	size := sc.Max*sc.Cam.FPS + 1
	m0 := vfScenModel(c)
	wantCont := vfModelIDs(m0.Continuous, true)
	if got := vfIDsString(o.cont); got != vfIDsString(wantCont) {
		r.Failf("finished continuous files hold %s, want back-to-back blocks of max-secs*fps+1 = %d frames per connection covering every frame once in order: %s (window kind %d, throttle %v, reconnect at item %d)", got, size, vfIDsString(wantCont), c.WindowKind, c.Throttle, c.SplitAt)
		return r
	}
	for _, f := range wantCont {
		if len(f) != size {
			panic("model: continuous block size")
		}
	}
	m := vfScenModel(c)
	// test recordings: exactly the model's (21 consecutive frames from the next processed frame)
	wantTest := vfModelIDs(m.Test, true)
	wantMotion := vfModelIDs(m.Motion, true)
	extra, missing := vfMatchFiles(o.all, wantTest)
	if len(missing) > 0 {
		r.Failf("test recording(s) %v missing or altered; finished files: %v", missing, o.all)
		return r
	}
	if !c.Throttle {
		ex2, miss2 := vfMatchFiles(extra, wantMotion)
		if len(ex2) > 0 || len(miss2) > 0 {
			r.Failf("besides the test recordings the output directory holds %v, the model predicts the motion recordings %v (a test recording must not disturb a motion recording)", extra, wantMotion)
			return r
		}
	} else {
		for _, f := range extra {
			ok := false
			for _, u := range m.Motion {
				if strings.Contains(fmt.Sprint(u.IDs), strings.Trim(fmt.Sprint(f), "[]")) {
					ok = true
				}
			}
			if !ok {
				r.Failf("file %v is neither a test recording nor a piece of a motion recording %v", f, wantMotion)
				return r
			}
		}
	}
	inside := false
	for _, tr := range m.Test {
		for _, mr := range m.Motion {
			if len(tr.IDs) > 0 && len(mr.IDs) > 0 && tr.IDs[0] <= mr.IDs[len(mr.IDs)-1] && mr.IDs[0] <= tr.IDs[len(tr.IDs)-1] {
				inside = true
			}
		}
	}
	r.Class(fmt.Sprintf("window_kind=%d", c.WindowKind))
	if c.Throttle {
		r.Class("throttle_on")
	}
	{
		frameNo, n := map[int]int{}, 0
		for i, it := range sc.Items {
			if it.K == vfItFrame {
				frameNo[i] = n
				n++
			}
		}
		for _, q := range c.TestAt {
			for _, mr := range m.Motion {
				if mr.TriggerID == frameNo[q] {
					r.Class("test_request_on_trigger_frame")
				}
			}
		}
	}
	if len(wantTest) > 0 {
		r.Class("has_test_recording")
	}
	if c.SplitAt > 0 {
		r.Class("reconnect")
	}
	if inside {
		r.Class("test_overlaps_motion_recording")
	}
	r.NT = len(o.cont) >= 2 && len(wantTest) > 0
	return r
}

func TestVF_C17_E2E(t *testing.T) {
	kit.Drive(t, "C17", "TestVF_C17_E2E",
		"generated: socket streams of valid frames with motion, 'clear' markers and up to 2 non-overlapping test-recording requests (issued at lock-step barriers through the service entry point), continuous recorder on, optionally a camera reconnect into the same output directory, recording window none / open / closed, throttling off / on with small and large buckets; real handleConn and file recorders. Oracle on the decoded files: continuous files are back-to-back blocks of exactly max-secs*fps+1 frames covering every frame once in order whatever the window and throttle settings; every request yields one file of exactly 21 consecutive frames starting with the next processed frame; the remaining files are the model's motion recordings (or, when throttled, contiguous pieces of them). Non-trivial: at least 2 continuous files and a test recording.",
		vfGenC17E2E, vfRunC17E2E)
}

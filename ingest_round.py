#!/usr/bin/env python3
"""ingest_round.py <prefix> : confirm every /tmp/seed/out/<prefix>-<ID>/{a,b} with tools_confirm_seed.sh and register it
under the next free letter of seeded/<ID>-?. Demonstrations spanning several package dirs are reported for manual handling."""
import glob, os, re, subprocess, sys, string
V = "/verif"
prefix = sys.argv[1]
for src in sorted(glob.glob("/tmp/seed/out/%s-C*/[ab]" % prefix)):
    pid = re.search(r"-(C\d\d)/", src).group(1)
    tests = glob.glob(src + "/*_test.go")
    if not tests:
        print(src, "NO DEMO"); continue
    pkgs = set()
    bypkg = {}
    for t in tests:
        m = re.search(r"^package (\w+)", open(t).read(), re.M)
        pk = m.group(1)
        if pk.endswith("_test"):
            pk = pk[:-5]  # external test package of the same directory
        if pk == "main":
            readme = open(src + "/README.md").read() if os.path.exists(src + "/README.md") else ""
            pk = "cmd/thermal-writer" if readme.count("thermal-writer") > readme.count("cmd/thermal-recorder") else "cmd/thermal-recorder"
        pkgs.add(pk)
        bypkg.setdefault(pk, []).append(t)
    if len(pkgs) != 1:
        # demonstrations in several packages: confirm with those of one package (library package preferred)
        pk = sorted(pkgs, key=lambda x: (x.startswith("cmd/"), x))[0]
        split = src + "-split"
        os.makedirs(split, exist_ok=True)
        for f in ["patch.diff", "README.md"]:
            if os.path.exists(src + "/" + f):
                subprocess.run(["cp", src + "/" + f, split + "/"])
        for t in bypkg[pk]:
            subprocess.run(["cp", t, split + "/"])
        print(src, "MULTI-PACKAGE DEMO", pkgs, "-> confirming with", pk)
        src, pkgs = split, {pk}
    # already ingested?
    done = False
    for d in glob.glob(V + "/seeded/%s-*" % pid):
        if os.path.exists(d + "/patch.diff") and open(d + "/patch.diff").read() == open(src + "/patch.diff").read():
            done = True
    if done:
        print(src, "already ingested"); continue
    used = {os.path.basename(d).split("-")[1] for d in glob.glob(V + "/seeded/%s-*" % pid)}
    letter = next(l for l in string.ascii_lowercase if l not in used)
    name = "%s-%s" % (pid, letter)
    p = subprocess.run([V + "/tools_confirm_seed.sh", src, name, pid, pkgs.pop(), "see agent-README.md (%s)" % prefix], capture_output=True, text=True)
    print(src, "->", name, p.stdout.strip().splitlines()[-1] if p.stdout.strip() else p.stderr[-200:])

#!/bin/bash
# usage: tools_seed.sh <patch.diff> <ID> [tier] -- apply a seeded patch in /tmp/mut, confirm baseline passes, run check <ID>
export GOFLAGS=-mod=mod GOPROXY=off GOSUMDB=off GOTOOLCHAIN=local
P=$1; ID=$2; TIER=${3:-quick}
cd /tmp/mut || exit 3
git checkout -q -- . ; git clean -fdq
git apply "$P" || { echo "PATCH DOES NOT APPLY"; exit 3; }
if ! go build ./... ; then echo "BUILD FAILS"; fi
if ! (unset GOFLAGS; go test -vet=off -count=1 ./... >/tmp/mut.test.log 2>&1); then echo "baseline tests FAIL under patch"; grep -E "^(---|FAIL)" /tmp/mut.test.log | head; else echo "baseline passes under patch"; fi
cd /verif && VERIF_REPO=/tmp/mut ./check $ID $TIER | tail -${TAILN:-3}
echo "rc=${PIPESTATUS[0]}"
cd /tmp/mut && git checkout -q -- . && git clean -fdq

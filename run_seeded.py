#!/usr/bin/env python3
"""Runs every kept seeded change against the quick tier of the checks (its own property's check first, then any
others listed) in the scratch worktree /tmp/mut and records the outcome in seeded/<name>/meta.json and
seeded/RESULTS.md. Usage: run_seeded.py [name ...]"""
import glob, json, os, subprocess, sys
V = os.path.dirname(os.path.abspath(__file__))
MUT = os.environ.get("SEED_MUT", "/tmp/mut")  # scratch worktree of /repo (a second sweep can run in another one)
ENV = dict(os.environ, GOFLAGS="-mod=mod", GOPROXY="off", GOSUMDB="off", GOTOOLCHAIN="local", VERIF_REPO=MUT, VERIF_WORK=os.environ.get("SEED_WORK", os.path.join(V, ".work-sweep")))
EXTRA = {
    "C11-c": ["C05"], "C14-c": ["C18"], "C03-d": ["C11"], "C06-c": ["C05"], "C09-d": ["C12", "C15"], "C10-d": ["C17"],
    "C12-c": ["C06"], "C02-q": ["C01"], "C08-q": ["C07", "C09"], "C08-r": ["C13"], "C15-t": ["C09"], "C01-s": ["C12", "C13"], "C04-u": ["C12"], "C04-v": ["C01"], "C11-v": ["C17"], "C14-u": ["C19", "C07"], "C16-u": ["C11", "C13"], "C16-v": ["C01", "C02"], "C17-u": ["C12"], "C17-v": ["C12"], "C19-o": ["C14", "C16"], "C19-p": ["C14", "C16"], "C02-r": ["C03"], "C03-q": ["C12"], "C05-t": ["C06"], "C06-s": ["C12"], "C09-s": ["C15"], "C10-t": ["C17"], "C12-r": ["C13"], "C13-u": ["C16"], "C13-v": ["C16", "C19"], "C01-q": ["C12", "C02"], "C01-r": ["C04", "C02"], "C04-t": ["C13", "C01"], "C14-s": ["C15", "C11"], "C14-t": ["C18"], "C16-s": ["C17"], "C17-s": ["C14", "C13"], "C17-t": ["C04"], "C19-m": ["C16"], "C19-n": ["C02", "C09"], "C20-m": ["C12"], "C12-p": ["C13", "C17"], "C07-p": ["C11"], "C08-o": ["C13", "C15"], "C08-p": ["C13", "C17", "C12"], "C09-q": ["C07"], "C09-r": ["C15"], "C10-r": ["C17", "C14"], "C11-s": ["C17", "C14"], "C11-t": ["C14"], "C12-o": ["C17", "C16"], "C13-s": ["C16"], "C13-t": ["C12", "C16"], "C15-q": ["C11"], "C01-o": ["C02"], "C01-p": ["C12", "C02"], "C02-o": ["C17", "C14"], "C02-p": ["C13", "C01"], "C03-o": ["C12", "C04"], "C03-p": ["C13"], "C04-q": ["C06"], "C04-r": ["C10", "C11"], "C05-r": ["C17"], "C06-q": ["C12"], "C06-r": ["C12"], "C14-q": ["C11"], "C16-r": ["C14"], "C10-o": ["C17"], "C11-q": ["C17", "C13"], "C11-r": ["C14", "C13"], "C12-m": ["C07", "C09"], "C12-n": ["C13", "C17"], "C13-q": ["C11"], "C13-r": ["C16"], "C15-o": ["C11"], "C15-p": ["C04", "C09"], "C17-r": ["C10"], "C20-l": ["C12"], "C08-m": ["C07", "C09"], "C08-n": ["C13", "C11"], "C02-m": ["C01"], "C02-n": ["C03", "C01"], "C03-n": ["C17", "C01"], "C04-o": ["C11", "C17", "C13"], "C04-p": ["C11"], "C05-o": ["C06"], "C05-p": ["C06"], "C06-o": ["C05"], "C06-p": ["C15", "C11"], "C07-n": ["C11", "C09"], "C09-o": ["C15"], "C09-p": ["C07"], "C01-m": ["C17", "C12"], "C01-n": ["C03"], "C11-o": ["C09", "C15"], "C11-p": ["C13", "C01"], "C13-o": ["C11"], "C13-p": ["C06", "C12"], "C14-p": ["C17", "C11"], "C16-o": ["C12", "C17"], "C16-p": ["C17", "C12"], "C17-o": ["C11"], "C17-p": ["C14", "C13"], "C19-l": ["C02", "C09"], "C03-k": ["C11", "C13"], "C03-l": ["C01"], "C04-m": ["C06", "C05"], "C04-n": ["C01", "C09"], "C06-m": ["C05", "C11"], "C08-k": ["C07", "C09"], "C08-l": ["C15"], "C09-n": ["C04", "C01"], "C10-m": ["C17"], "C10-n": ["C16", "C17"], "C15-m": ["C08"], "C15-n": ["C11"], "C02-k": ["C11"], "C02-l": ["C13", "C17"], "C02-l": ["C04", "C01"], "C07-l": ["C13", "C08"], "C13-m": ["C12"], "C13-n": ["C16"], "C14-m": ["C09"], "C14-n": ["C13", "C17"], "C11-m": ["C10"], "C16-n": ["C13", "C14"], "C17-m": ["C13"], "C17-n": ["C16"], "C01-k": ["C02"], "C01-l": ["C02", "C09"], "C09-k": ["C15"], "C10-k": ["C17"], "C10-l": ["C17"], "C12-k": ["C06"], "C12-l": ["C17"], "C15-k": ["C08"], "C15-l": ["C06", "C11"], "C19-j": ["C02"], "C20-j": ["C12"], "C02-i": ["C04", "C01"], "C02-j": ["C09", "C01"], "C03-i": ["C11", "C12"], "C03-j": ["C17", "C12", "C01"], "C04-k": ["C11"], "C04-l": ["C13", "C01"], "C06-l": ["C12"], "C07-i": ["C11"], "C08-i": ["C15"], "C08-j": ["C13", "C11"], "C16-k": ["C13"], "C16-l": ["C17"], "C17-k": ["C03"], "C17-l": ["C16"], "C01-i": ["C02", "C19"], "C01-j": ["C12", "C02"], "C05-l": ["C14", "C17"], "C11-k": ["C17", "C14"], "C11-l": ["C13", "C17"], "C13-k": ["C16"], "C13-l": ["C01", "C04"], "C14-k": ["C13", "C11"], "C15-i": ["C11"], "C04-i": ["C12"], "C04-j": ["C06", "C12"], "C06-i": ["C05"], "C06-j": ["C12"], "C10-i": ["C17"], "C10-j": ["C17"], "C12-i": ["C04"], "C12-j": ["C17"], "C16-i": ["C12", "C03"], "C16-j": ["C12", "C17"], "C17-i": ["C13", "C10"], "C17-j": ["C13", "C11"], "C19-g": ["C02"], "C19-h": ["C02"], "C02-g": ["C01"], "C02-h": ["C11", "C13"], "C03-g": ["C12"], "C03-h": ["C04"], "C05-j": ["C17", "C11"], "C07-h": ["C12", "C14"], "C08-g": ["C15", "C09"], "C08-h": ["C07", "C11"], "C11-i": ["C06", "C15"], "C11-j": ["C03"], "C13-i": ["C12", "C06"], "C13-j": ["C12", "C17"], "C14-j": ["C11"], "C10-h": ["C17", "C13"], "C10-g": ["C17"], "C15-h": ["C06"], "C12-g": ["C06"], "C12-h": ["C03"], "C16-h": ["C13", "C17", "C12"], "C15-g": ["C08"], "C06-h": ["C05"], "C14-h": ["C18"], "C14-g": ["C12"], "C17-g": ["C13", "C10"], "C13-g": ["C17"], "C13-h": ["C17", "C10"], "C04-h": ["C13", "C12"], "C11-g": ["C01", "C13"], "C11-h": ["C13"], "C02-e": ["C01", "C12"], "C02-f": ["C12"], "C03-e": ["C04"], "C03-f": ["C12"], "C08-e": ["C13"], "C20-f": ["C12"], "C12-e": ["C06"], "C15-e": ["C09"], "C09-f": ["C15"], "C11-f": ["C01", "C02"], "C14-f": ["C18"], "C04-e": ["C06"], "C04-f": ["C12"], "C01-d": ["C17", "C16"], "C15-c": ["C06"], "C15-d": ["C11"], "C12-d": ["C13"],  # other checks worth trying when the property's own check misses, or known to catch it too
    "C03-b": ["C12"], "C08-a": ["C01", "C13"], "C11-b": ["C06"], "C15-b": ["C12"], "C09-b": ["C07"], "C07-a": ["C09"],
}
names = sys.argv[1:] or sorted(os.path.basename(p) for p in glob.glob(V + "/seeded/C*"))
head = subprocess.run(["git", "-C", "/repo", "rev-parse", "--short", "HEAD"], capture_output=True, text=True).stdout.strip()
rows = []
for n in names:
    d = os.path.join(V, "seeded", n)
    meta = json.load(open(d + "/meta.json"))
    subprocess.run("git checkout -q -- . && git clean -fdq", shell=True, cwd=MUT)
    subprocess.run(["git", "checkout", "-q", "--detach", head], cwd=MUT)
    ap = subprocess.run(["git", "apply", "--3way", d + "/patch.diff"], cwd=MUT, capture_output=True, text=True)
    if ap.returncode != 0:
        ap = subprocess.run(["git", "apply", d + "/patch.diff"], cwd=MUT, capture_output=True, text=True)
    if ap.returncode != 0:
        meta["caught_by"] = {"error": "patch does not apply to current /repo HEAD %s" % head}
        json.dump(meta, open(d + "/meta.json", "w"), indent=1)
        rows.append((n, "patch does not apply", ""))
        continue
    subprocess.run("git reset -q", shell=True, cwd=MUT)
    res = {}
    for pid in [meta["property"]] + EXTRA.get(n, []):
        p = subprocess.run([V + "/check", pid, "quick"], cwd=V, env=ENV, capture_output=True, text=True)
        msg = ""
        lines = p.stdout.splitlines()
        for i, line in enumerate(lines):
            if line.startswith("VIOLATION") and i > 0 and lines[i - 1].startswith("  ") and not msg:
                msg = lines[i - 1].strip()[:200]
        if p.returncode == 1 and not msg:
            msg = "race detector report" if "race-" in p.stdout else "violation"
        res[pid] = {"exit": p.returncode, "first_message": msg}
    subprocess.run("git checkout -q -- . && git clean -fdq", shell=True, cwd=MUT)
    old = meta.get("caught_by") or {}
    meta["caught_by"] = {"repo_head": head, "tier": "quick", "results": res,
                         "caught": sorted(k for k, v in res.items() if v["exit"] == 1)}
    if not meta["caught_by"]["caught"] and old.get("thorough"):
        # reported by the thorough tier only (recorded by hand after running it): keep that record
        meta["caught_by"]["thorough"] = old["thorough"]
        meta["caught_by"]["caught"] = [c for c in old.get("caught", []) if "thorough" in c]
    json.dump(meta, open(d + "/meta.json", "w"), indent=1)
    rows.append((n, ", ".join(meta["caught_by"]["caught"]) or "MISSED", "; ".join("%s: %s" % (k, v["first_message"]) for k, v in res.items() if v["exit"] == 1)[:220]))
    infra = [k for k, v in res.items() if v["exit"] not in (0, 1)]
    print(n, meta["caught_by"]["caught"] or ("INCONCLUSIVE (exit 2 from %s: rerun)" % ",".join(infra) if infra else "MISSED"), flush=True)
# the table is rebuilt from every meta.json, so partial runs keep the other rows
with open(V + "/seeded/RESULTS.md", "w") as f:
    f.write("# Seeded changes vs. checks (quick tier)\n\nEach row: a change made by an independent sub-agent that was given only the text of the property; "
            "`caught by` lists the checks whose quick tier reports a violation with the change applied to a scratch worktree of /repo.\n\n"
            "| seeded change | breaks | caught by | first message | /repo HEAD |\n|---|---|---|---|---|\n")
    for d in sorted(glob.glob(V + "/seeded/C*")):
        m = json.load(open(d + "/meta.json"))
        cb = m.get("caught_by") or {}
        if "error" in cb:
            f.write("| %s | %s | %s | | |\n" % (os.path.basename(d), m["property"], cb["error"]))
            continue
        res = cb.get("results", {})
        msg = "; ".join("%s: %s" % (k, v["first_message"]) for k, v in res.items() if v["exit"] == 1)[:200].replace("|", "/")
        f.write("| %s | %s | %s | %s | %s |\n" % (os.path.basename(d), m["property"], ", ".join(cb.get("caught", [])) or "not run / MISSED", msg, cb.get("repo_head", "")))

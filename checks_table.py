"""Table of engines and checks: which test functions decide which property, and their budgets.

rapid parts:  tier -> (shards, cases per shard).   plain parts: a test function run once (or per shard).
"""

ENGINES = {
    "mp":  {"pkg": "motion", "src": "inpkg/motion"},
    "thr": {"pkg": "throttle", "src": "inpkg/throttle"},
    "log": {"pkg": "loglimiter", "src": "inpkg/loglimiter"},
    "hdr": {"pkg": "headers", "src": "inpkg/headers"},
    "e2e": {"pkg": "cmd/thermal-recorder", "src": "inpkg/recmain"},
    "tw":  {"pkg": "cmd/thermal-writer", "src": "inpkg/twmain"},
    "lpd": {"pkg": "cmd/leptond", "src": "inpkg/lpdmain"},
}

BASE_ASSUME = [
    "Go toolchain, rapid v1.3.0 and the third-party modules the repository links are trusted",
    "checks are compiled into the repository's own packages with go test -overlay from /repo's working tree; the alternate modfile raises the language version to go 1.23 (no loop in the repo changes meaning)",
]

MP_ASSUME = BASE_ASSUME + [
    "frames reach the processor through a compact harness parser (Process) or ProcessFrame; the motion bits used by the oracles are the ones the real detector reported through the listener",
    "the motion run counts consecutive motion frames since the last still frame or the end of the previous recording (the reading DESIGN.md fixes for C04)",
]

PROPS = {
    "C01": {"level": "exploration", "assumptions": MP_ASSUME,
            "parts": [{"engine": "mp", "test": "TestVF_C01", "quick": (4, 5000), "thorough": (16, 25000)},
                      {"engine": "mp", "test": "TestVF_C01_Model", "quick": (4, 3000), "thorough": (16, 25000)}]},
    "C02": {"level": "exploration", "assumptions": MP_ASSUME,
            "parts": [{"engine": "mp", "test": "TestVF_C02", "quick": (4, 5000), "thorough": (16, 25000)}]},
    "C03": {"level": "exploration", "assumptions": MP_ASSUME,
            "parts": [{"engine": "mp", "test": "TestVF_C03", "quick": (4, 5000), "thorough": (16, 25000)}]},
    "C04": {"level": "exploration", "assumptions": MP_ASSUME,
            "parts": [{"engine": "mp", "test": "TestVF_C04", "quick": (4, 5000), "thorough": (16, 25000)},
                      {"engine": "e2e", "test": "TestVF_C04_E2E", "quick": (4, 40), "thorough": (16, 300), "shrinktime": "10s"}]},
    "C20": {
        "level": "exploration",
        "assumptions": BASE_ASSUME + ["the limiter's clock is injected through its nowFunc field; arrival times are non-decreasing"],
        "parts": [
            {"engine": "log", "test": "TestVF_C20", "quick": (4, 20000), "thorough": (16, 100000)},
            {"engine": "log", "test": "TestVF_C20_Periodic", "quick": (1, 2000), "thorough": (8, 20000)},
            {"engine": "mp", "test": "TestVF_C20_Recorder", "quick": (1, 100), "thorough": (4, 1000)},
            {"engine": "log", "test": "TestVF_C20_Exhaustive", "kind": "plain", "tiers": ["thorough"]},
        ],
    },
    "C05": {"level": "exploration", "assumptions": BASE_ASSUME + ["the rate limiter's clock is injected (ratelimit.Clock); tolerance as stated in the property: 1% rate margin and 2 frames of tick quantisation"],
            "parts": [{"engine": "thr", "test": "TestVF_C05", "quick": (4, 3000), "thorough": (16, 30000)},
                      {"engine": "thr", "test": "TestVF_C05_Composed", "quick": (4, 1500), "thorough": (16, 5000)},
                      {"engine": "e2e", "test": "TestVF_C05_E2E", "quick": (4, 20), "thorough": (16, 120), "shrinktime": "10s"}]},
    "C06": {"level": "exploration", "assumptions": BASE_ASSUME + ["caller-well-formed sessions only (the shape MotionProcessor produces); no lock-step model of the token bucket: budget bounds are derived from forwarded frames and elapsed time"],
            "parts": [{"engine": "thr", "test": "TestVF_C06", "quick": (4, 4000), "thorough": (16, 30000)}]},
    "C07": {"level": "exploration", "assumptions": BASE_ASSUME + ["the reference detector is an independent implementation of the statement; count-thresh >= 1, gap >= 1, 2*edge < min(w,h)"],
            "parts": [{"engine": "mp", "test": "TestVF_C07", "quick": (4, 8000), "thorough": (16, 100000)}]},
    "C08": {"level": "exploration", "assumptions": BASE_ASSUME + ["metamorphic relation over pairs of streams; background and threshold are read in-package after every frame"],
            "parts": [{"engine": "mp", "test": "TestVF_C08", "quick": (4, 4000), "thorough": (16, 40000)}]},
    "C09": {"level": "exploration", "assumptions": BASE_ASSUME + ["reading of 'content of any frame from before it': paired histories share the timeline (length, telemetry, resets) and differ only in pixels before the FFC period / reset; dynamic-threshold pairs have no reset before the end of the period (DESIGN.md C09)"],
            "parts": [{"engine": "mp", "test": "TestVF_C09", "quick": (4, 6000), "thorough": (16, 60000)}]},
    "C13": {"level": "exploration", "assumptions": MP_ASSUME,
            "parts": [{"engine": "mp", "test": "TestVF_C13_Proc", "quick": (4, 2500), "thorough": (16, 20000)},
                      {"engine": "e2e", "test": "TestVF_C13_Parser", "quick": (4, 5000), "thorough": (16, 50000)},
                      {"engine": "e2e", "test": "TestVF_C13_Socket", "quick": (4, 50), "thorough": (16, 400), "shrinktime": "10s"},
                      {"engine": "e2e", "test": "TestVF_C13_DBus", "quick": (2, 10), "thorough": (8, 100), "shrinktime": "10s"},
                      {"engine": "e2e", "test": "FuzzVF_C13_Parser", "kind": "fuzz", "tiers": ["thorough"], "thorough_secs": 90}]},
    "C14": {"level": "exploration", "assumptions": BASE_ASSUME + ["camera descriptions are encoded with the same yaml.v1 Marshal call as cmd/leptond's sendCameraSpecs (which itself needs camera hardware); strings are single-line valid UTF-8"],
            "parts": [{"engine": "hdr", "test": "TestVF_C14_Header", "quick": (4, 4000), "thorough": (16, 50000)},
                      {"engine": "e2e", "test": "TestVF_C14_Socket", "quick": (4, 50), "thorough": (16, 400), "shrinktime": "10s"},
                      {"engine": "e2e", "test": "TestVF_C14_Reconnects", "quick": (2, 10), "thorough": (8, 60), "shrinktime": "10s"},
                      {"engine": "e2e", "test": "TestVF_C14_Silence", "quick": (3, 1), "thorough": (4, 1), "thorough_env": {"VERIF_SILENCE_S": 65}, "shrinktime": "1s"},
                      {"engine": "lpd", "test": "TestVF_C14_Leptond", "kind": "plain"},
                      {"engine": "hdr", "test": "FuzzVF_C14_Header", "kind": "fuzz", "tiers": ["thorough"], "thorough_secs": 90}]},
    "C15": {"level": "exploration", "assumptions": BASE_ASSUME + ["background and threshold are read in-package from the detector; threshold tolerance +-1 for float accumulation"],
            "parts": [{"engine": "mp", "test": "TestVF_C15", "quick": (4, 4000), "thorough": (16, 40000)}]},
    "C10": {"level": "fault_enumeration", "assumptions": BASE_ASSUME + ["process kill only (as the property says); a kill on entering a file-system system call of the handleConn thread leaves exactly the on-disk state a concurrent observer could see at that instant", "strace (ptrace) is available; crash points are numbered on a reference run of the same stream and verified per run (misaligned runs are skipped and counted)", "the daemon's own start-up (runMain up to listening for the camera) is run for the first five crash states with debris of every stream when a private dbus-daemon can be started; all other states, and all states where it cannot, are judged after calling the start-up clean-up function deleteTempFiles directly"],
            "parts": [{"engine": "e2e", "test": "TestVF_C10", "quick": (8, 1), "thorough": (16, 2), "quick_env": {"VERIF_C10_POINTS": 30}, "shrinktime": "1s", "quick_timeout": 600, "thorough_timeout": 3000}]},
    "C11": {"level": "exploration", "assumptions": BASE_ASSUME + ["handleConn is driven over net.Pipe in lock step; no system D-Bus (calls to peer daemons fail fast and are ignored by the code); distinct recordings start in distinct milliseconds (the sender paces frames); altitude >= 0 (go-cptv does not store negative altitudes)"],
            "parts": [{"engine": "e2e", "test": "TestVF_C11", "quick": (4, 150), "thorough": (16, 1500), "shrinktime": "10s"}]},
    "C12": {"level": "exploration", "assumptions": MP_ASSUME + ["sink faults are injected by call ordinal on mock sinks; the real file recorder's own failure modes are exercised by the e2e checks"],
            "parts": [{"engine": "mp", "test": "TestVF_C12", "quick": (4, 3000), "thorough": (16, 30000)},
                      {"engine": "mp", "test": "TestVF_C12_SingleFault", "quick": (4, 100), "thorough": (16, 1500), "shrinktime": "5s"}]},
    "C16": {"level": "exploration", "assumptions": BASE_ASSUME + ["the harness does not own the Go scheduler: interleavings are those produced under generated perturbation (GOMAXPROCS, spins, yields, pauses); the race detector reports races on executions that occur", "the D-Bus transport itself is not run: the service methods are called directly"],
            "parts": [{"engine": "e2e", "race": True, "test": "TestVF_C16", "quick": (4, 40), "thorough": (16, 500), "shrinktime": "15s", "quick_timeout": 600},
                      {"engine": "e2e", "race": True, "test": "TestVF_C16_DBus", "quick": (2, 15), "thorough": (8, 150), "shrinktime": "15s", "quick_timeout": 600}]},
    "C17": {"level": "exploration", "assumptions": MP_ASSUME,
            "parts": [{"engine": "mp", "test": "TestVF_C17", "quick": (4, 2500), "thorough": (16, 25000)},
                      {"engine": "mp", "test": "TestVF_C17_HugeFiles", "quick": (2, 3), "thorough": (8, 12), "shrinktime": "5s"},
                      {"engine": "e2e", "test": "TestVF_C17_E2E", "quick": (4, 40), "thorough": (16, 250), "shrinktime": "10s"}]},
    "C18": {"level": "exploration", "assumptions": BASE_ASSUME + ["the harness does not own the scheduler: relative speeds of reader and writer are perturbed through GOMAXPROCS, CPU-burning goroutines, sender pacing and chunking; the race detector reports races on executions that occur", "one connection per output directory (file names have one-second resolution)"],
            "parts": [{"engine": "tw", "race": True, "test": "TestVF_C18", "quick": (8, 16), "thorough": (16, 120), "shrinktime": "15s", "quick_timeout": 600},
                      {"engine": "tw", "race": False, "test": "TestVF_C18_Clock", "quick": (2, 6), "thorough": (8, 20), "shrinktime": "5s"},
                      {"engine": "tw", "race": True, "test": "TestVF_C18_Stall", "quick": (3, 1), "thorough": (4, 1), "thorough_env": {"VERIF_SILENCE_S": 65}, "shrinktime": "1s"},
                      {"engine": "tw", "race": True, "test": "TestVF_C18_Rotation", "kind": "plain", "tiers": ["thorough"]},
                      {"engine": "tw", "race": True, "test": "TestVF_C18_Reconnects", "kind": "plain", "tiers": ["thorough"]}]},
    "C19": {
        "level": "exploration",
        "assumptions": BASE_ASSUME + ["every Move is preceded by a write into the current slot, as in both callers"],
        "parts": [
            {"engine": "mp", "test": "TestVF_C19", "quick": (4, 20000), "thorough": (16, 200000)},
            {"engine": "mp", "test": "TestVF_C19_Concurrent", "kind": "plain"},
            {"engine": "mp", "test": "TestVF_C19_Exhaustive", "kind": "plain", "tiers": ["thorough"]},
            {"engine": "mp", "test": "FuzzVF_C19", "kind": "fuzz", "tiers": ["thorough"], "thorough_secs": 60},
        ],
    },
}

#!/bin/bash
# usage: tools_mut.sh <ID> <file-relative> <sed-expr> [tier]   -- applies a mutation in the scratch worktree /tmp/mut, runs the
# package tests there (must still pass) and the check against it; then reverts the scratch worktree.
export GOFLAGS=-mod=mod GOPROXY=off GOSUMDB=off GOTOOLCHAIN=local
ID=$1; F=$2; EXPR=$3; TIER=${4:-quick}
cd /tmp/mut || exit 3
git checkout -q -- . 
sed -i -E "$EXPR" "$F"
if git diff --quiet; then echo "MUTATION DID NOT APPLY"; exit 3; fi
git diff | grep '^[+-]' | grep -v '^+++\|^---'
PKG=./$(dirname $F)
if ! go test -count=1 $PKG >/tmp/mut.test.log 2>&1; then echo "baseline tests FAIL under mutation (not a valid mutant)"; tail -5 /tmp/mut.test.log; fi
cd /verif && VERIF_REPO=/tmp/mut ./check $ID $TIER | tail -4
echo "rc=${PIPESTATUS[0]}"
cd /tmp/mut && git checkout -q -- .

#!/bin/bash
# usage: selftest.sh <tier> <seed...>   runs every check at the given seeds on /repo and prints anything that is not OK
TIER=$1; shift
HERE=$(cd "$(dirname "$0")" && pwd)
for s in "$@"; do
  for p in $(python3 -c "import sys; sys.path.insert(0,'$HERE'); from checks_table import PROPS; print(' '.join(sorted(PROPS)))"); do
    out=$(VERIF_SEED=$s $HERE/check $p $TIER 2>&1); rc=$?
    line=$(echo "$out" | grep -E "^(OK|VIOLATION|INFRA)" | tail -1)
    if [ $rc -ne 0 ]; then echo "seed=$s $p rc=$rc :: $line"; echo "$out" | grep -v "rapid\] draw" | tail -15; else echo "seed=$s $line"; fi
  done
done

#!/usr/bin/env python3
"""Regenerates MANIFEST.json from checks_table.py and manifest_text.py (levels, notes, techniques)."""
import json, os, sys
sys.path.insert(0, os.path.dirname(os.path.abspath(__file__)))
from checks_table import ENGINES, PROPS
from manifest_text import TEXT, PENDING_REASON

ALL = ["C%02d" % i for i in range(1, 21)]
BASE = ("cd /repo && go test -vet=off -count=1 -timeout 25m ./...")
m = {
    "version": 1,
    "setup_cmd": "./check --build-all",
    "hooks": {
        "guard": "verif",
        "enable": "no hook is patched into /repo: the checks are in-package test files under /verif/inpkg/, all tagged //go:build verif, compiled into the repository's packages with `go test -c -tags verif -overlay=<json> -modfile=<copy of go.mod + rapid>` from /repo's current working tree",
        "baseline_off_cmd": BASE,
        "source_commits": [],
        "add_only": True,
    },
    "engines": [
        {"name": k, "path": "/verif/" + v["src"], "serves_properties": sorted(p for p in PROPS if any(pt["engine"] == k for pt in PROPS[p]["parts"])),
         "kind_free_text": "rapid property tests (+ enumerations / native fuzz) overlaid into package %s" % v["pkg"]}
        for k, v in ENGINES.items()
    ],
    "checks": [],
    "not_applicable": [],
    "notes": "Technique family: property-based testing and fuzzing. See DESIGN.md. Replay: ./check <ID> --replay <file>.",
}
for pid in ALL:
    if pid in PROPS:
        t = TEXT[pid]
        c = {
            "property_id": pid,
            "quick_cmd": "./check %s quick" % pid,
            "thorough_cmd": "./check %s thorough" % pid,
            "evidence_file": "/verif/evidence/%s.json" % pid,
            "replay_cmd_template": "./check %s --replay {path}" % pid,
            "engine": ",".join(sorted({p["engine"] for p in PROPS[pid]["parts"]})),
            "level_claimed": {"category": PROPS[pid]["level"], "text": t["text"], "design_ref": t["ref"]},
            "level_note": t["note"],
            "technique": t["technique"],
        }
        m["checks"].append(c)
    else:
        m["not_applicable"].append({"property_id": pid, "reason": PENDING_REASON})
json.dump(m, open(os.path.join(os.path.dirname(os.path.abspath(__file__)), "MANIFEST.json"), "w"), indent=1)
print("claimed:", [c["property_id"] for c in m["checks"]])

// Package verifkit is the repo-independent part of the verification harness:
// session accounting (evidence, replay files), the rapid driver, reference
// models and frame synthesis helpers shared by the in-package checks that are
// overlaid into the thermal-recorder packages.
package verifkit

import (
	"encoding/json"
	"fmt"
	"hash/fnv"
	"os"
	"path/filepath"
	"runtime/debug"
	"sort"
	"strconv"
	"strings"
	"testing"

	"pgregory.net/rapid"
)

// Result is the verdict of running one generated case.
type Result struct {
	Err     string   // non-empty: the property is violated on this case
	NT      bool     // the case is non-trivial by the check's stated rule
	Classes []string // generator-distribution classes this case falls into
	Known   []string // keys of known findings this case hit (exempted, counted)
	Info    map[string]int
	// ReplayCase, when set, is written to the replay file instead of the generated case (for checks that
	// enumerate sub-cases, e.g. crash points, and want the replay to name the failing one).
	ReplayCase interface{}
	// Infra, when set, reports an infrastructure problem (tool missing, child process misbehaving): the run is
	// inconclusive, never a violation.
	Infra string
	// ExtraEvals / ExtraNT account sub-cases explored inside this case (e.g. crash points of a stream), distinct
	// by construction.
	ExtraEvals, ExtraNT int
}

func (r *Result) Failf(format string, a ...interface{}) {
	if r.Err == "" {
		r.Err = fmt.Sprintf(format, a...)
	}
}

func (r *Result) Class(c string) { r.Classes = append(r.Classes, c) }

func (r *Result) Count(k string, n int) {
	if r.Info == nil {
		r.Info = map[string]int{}
	}
	r.Info[k] += n
}

// Session accumulates what one test function explored and writes it out as a
// shard evidence fragment that the python driver merges.
type Session struct {
	Prop, Test, Rule string
	outDir           string
	shard            string
	evals            int
	nt               map[uint64]struct{}
	classes          map[string]int
	info             map[string]int
	known            map[string]int
	samples          []json.RawMessage
	ntSamples        []json.RawMessage
	failed           bool
	failMsg          string
	exhaustive       bool
	maxSamples       int
	ntExtra          int
	// ReplayTest names the Drive-based test that can replay this session's
	// failing cases (for enumerations that share a run function with one).
	ReplayTest string
	inflight   *os.File // the case being evaluated right now, for the driver to pick up if the process dies
}

// SetInflight records the case about to be evaluated in inflight-<prop>-<test>-<shard>.json: if the code under
// test brings the whole test process down (a Go fatal error, a panic on a goroutine of its own) no violation
// can be recorded from inside, and the driver turns this file into the replay file. ClearInflight empties it.
func (s *Session) SetInflight(c interface{}) {
	if s.outDir == "" {
		return
	}
	if s.inflight == nil {
		f, err := os.OpenFile(filepath.Join(s.outDir, fmt.Sprintf("inflight-%s-%s-%s.json", s.Prop, s.Test, s.shard)), os.O_CREATE|os.O_RDWR|os.O_TRUNC, 0644)
		if err != nil {
			return
		}
		s.inflight = f
	}
	test := s.Test
	if s.ReplayTest != "" {
		test = s.ReplayTest
	}
	b, _ := json.Marshal(map[string]interface{}{"property": s.Prop, "test": test, "case": json.RawMessage(canon(c))})
	s.inflight.WriteAt(b, 0)
	s.inflight.Truncate(int64(len(b)))
}

func (s *Session) ClearInflight() {
	if s.inflight != nil {
		s.inflight.Truncate(0)
	}
}

func Begin(prop, test, rule string) *Session {
	s := &Session{Prop: prop, Test: test, Rule: rule,
		outDir: os.Getenv("VERIF_OUT"), shard: os.Getenv("VERIF_SHARD"),
		nt: map[uint64]struct{}{}, classes: map[string]int{}, info: map[string]int{}, known: map[string]int{},
		maxSamples: 3}
	if s.shard == "" {
		s.shard = "0"
	}
	return s
}

func (s *Session) SetExhaustive() { s.exhaustive = true }

// Failed reports whether a violation has been recorded.
func (s *Session) Failed() bool { return s.failed }

// AddCounts accounts cases that are distinct by construction (complete
// enumerations), without hashing each of them.
func (s *Session) AddCounts(evals, nontrivial int) {
	s.evals += evals
	s.ntExtra += nontrivial
	s.classes["nontrivial"] += nontrivial
}

// Sample stores one written-out case for the evidence file.
func (s *Session) Sample(c interface{}) {
	if len(s.ntSamples) < s.maxSamples {
		s.ntSamples = append(s.ntSamples, canon(c))
	}
}

func (s *Session) ClassAdd(k string, n int) { s.classes[k] += n }

func canon(c interface{}) []byte {
	b, err := json.Marshal(c)
	if err != nil {
		return []byte(fmt.Sprintf("%#v", c))
	}
	return b
}

func hash64(b []byte) uint64 {
	h := fnv.New64a()
	h.Write(b)
	return h.Sum64()
}

// Record accounts one evaluated case.
func (s *Session) Record(c interface{}, r *Result) {
	if s.failed {
		return // shrinking re-runs are not counted
	}
	s.evals++
	s.evals += r.ExtraEvals
	s.ntExtra += r.ExtraNT
	s.classes["nontrivial"] += r.ExtraNT
	for _, k := range r.Classes {
		s.classes[k]++
	}
	for k, v := range r.Info {
		s.info[k] += v
	}
	for _, k := range r.Known {
		s.known[k]++
	}
	var enc []byte
	if r.NT {
		enc = canon(c)
		s.nt[hash64(enc)] = struct{}{}
		s.classes["nontrivial"]++
		if len(s.ntSamples) < s.maxSamples && len(enc) < 6000 {
			s.ntSamples = append(s.ntSamples, enc)
		}
	}
	if len(s.samples) < 1 {
		if enc == nil {
			enc = canon(c)
		}
		if len(enc) < 6000 {
			s.samples = append(s.samples, enc)
		}
	}
}

// Fail records a violation and writes the replay file (the last one written
// is the one rapid shrank to, because rapid re-runs the minimal case last).
func (s *Session) Fail(c interface{}, msg string) {
	s.failed = true
	s.failMsg = msg
	if s.outDir == "" {
		return
	}
	test := s.Test
	if s.ReplayTest != "" {
		test = s.ReplayTest
	}
	rec := map[string]interface{}{"property": s.Prop, "test": test, "message": msg, "case": json.RawMessage(canon(c))}
	b, _ := json.MarshalIndent(rec, "", " ")
	os.WriteFile(filepath.Join(s.outDir, fmt.Sprintf("fail-%s-%s-%s.json", s.Prop, s.Test, s.shard)), b, 0644)
}

// End writes the shard evidence fragment.
func (s *Session) End() {
	if s.outDir == "" {
		return
	}
	hashes := make([]string, 0, len(s.nt))
	for h := range s.nt {
		hashes = append(hashes, strconv.FormatUint(h, 16))
	}
	sort.Strings(hashes)
	samples := append([]json.RawMessage{}, s.ntSamples...)
	samples = append(samples, s.samples...)
	out := map[string]interface{}{
		"property": s.Prop, "test": s.Test, "rule": s.Rule, "shard": s.shard,
		"evaluations": s.evals, "nt_hashes": hashes, "nt_extra": s.ntExtra, "classes": s.classes, "info": s.info,
		"known": s.known, "samples": samples, "failed": s.failed, "message": s.failMsg,
		"exhaustive": s.exhaustive,
	}
	b, _ := json.Marshal(out)
	os.WriteFile(filepath.Join(s.outDir, fmt.Sprintf("ev-%s-%s-%s.json", s.Prop, s.Test, s.shard)), b, 0644)
}

// Guard runs f and converts a panic into a violation message.
func Guard(r *Result, f func()) {
	defer func() {
		if p := recover(); p != nil {
			r.Failf("panic: %v\n%s", p, trimStack(debug.Stack()))
		}
	}()
	f()
}

func trimStack(b []byte) string {
	lines := strings.Split(string(b), "\n")
	if len(lines) > 40 {
		lines = lines[:40]
	}
	return strings.Join(lines, "\n")
}

// Drive is the standard entry point of a check: replay mode, regression
// corpus, then rapid generation. gen must draw every random choice from rapid;
// run must be a pure function of the case.
func Drive[C any](t *testing.T, prop, test, rule string, gen func(*rapid.T) C, run func(C) *Result) {
	s := Begin(prop, test, rule)
	defer s.End()

	runOne := func(c C) *Result {
		var r *Result
		g := &Result{}
		s.SetInflight(c)
		Guard(g, func() { r = run(c) })
		s.ClearInflight()
		if g.Err != "" {
			if r == nil {
				r = g
			} else {
				r.Err = g.Err
			}
		}
		return r
	}

	if path := os.Getenv("VERIF_REPLAY"); path != "" {
		c, err := loadCase[C](path)
		if err != nil {
			t.Fatalf("cannot load replay file: %v", err)
		}
		r := runOne(c)
		s.Record(c, r)
		if r.Err != "" {
			s.Fail(c, r.Err)
			t.Fatalf("replay violates %s: %s", prop, r.Err)
		}
		return
	}

	if dir := os.Getenv("VERIF_REGRESS"); dir != "" {
		files, _ := filepath.Glob(filepath.Join(dir, test+"-*.json"))
		sort.Strings(files)
		for _, f := range files {
			c, err := loadCase[C](f)
			if err != nil {
				t.Fatalf("cannot load regression case %s: %v", f, err)
			}
			r := runOne(c)
			r.Class("regress")
			s.Record(c, r)
			if r.Err != "" {
				s.Fail(c, r.Err)
				t.Fatalf("regression case %s violates %s: %s", f, prop, r.Err)
			}
		}
	}
	if os.Getenv("VERIF_REGRESS_ONLY") != "" {
		return
	}

	infra := ""
	defer func() {
		if infra != "" && !s.failed {
			t.Fatalf("INFRA (inconclusive, not a violation): %s", infra)
		}
	}()
	rapid.Check(t, func(rt *rapid.T) {
		c := gen(rt)
		r := runOne(c)
		if r.Infra != "" {
			if infra == "" {
				infra = r.Infra
			}
			return
		}
		s.Record(c, r)
		if r.Err != "" {
			if r.ReplayCase != nil {
				s.Fail(r.ReplayCase, r.Err)
			} else {
				s.Fail(c, r.Err)
			}
			rt.Fatalf("%s violated: %s", prop, r.Err)
		}
	})
}

func loadCase[C any](path string) (C, error) {
	var c C
	b, err := os.ReadFile(path)
	if err != nil {
		return c, err
	}
	var rec struct {
		Case json.RawMessage `json:"case"`
	}
	if err := json.Unmarshal(b, &rec); err != nil {
		return c, err
	}
	if rec.Case == nil {
		rec.Case = b
	}
	err = json.Unmarshal(rec.Case, &c)
	return c, err
}

// LoadCase loads a replay case for checks that do not use Drive.
func LoadCase[C any](path string) (C, error) { return loadCase[C](path) }

// DriveFuzz runs the same generator and oracle under Go's native coverage-guided fuzzer: the fuzzer mutates
// the byte stream that rapid turns into draws (rapid.MakeFuzz). Used by the thorough tier for the byte-level
// properties. Evidence is flushed periodically because fuzz worker processes are killed, not returned from.
func DriveFuzz[C any](f *testing.F, prop, test, rule string, gen func(*rapid.T) C, run func(C) *Result) {
	s := Begin(prop, test, rule)
	s.shard = fmt.Sprintf("%s-%d", s.shard, os.Getpid())
	f.Add([]byte{0})
	f.Add([]byte{1, 2, 3, 4, 5, 6, 7, 8, 9, 10, 11, 12, 13, 14, 15, 16, 255, 254, 253, 252, 0, 0, 0, 0, 127, 128})
	n := 0
	f.Fuzz(rapid.MakeFuzz(func(rt *rapid.T) {
		c := gen(rt)
		var r *Result
		g := &Result{}
		Guard(g, func() { r = run(c) })
		if g.Err != "" {
			if r == nil {
				r = g
			} else {
				r.Err = g.Err
			}
		}
		s.Record(c, r)
		n++
		if r.Err != "" {
			s.Fail(c, r.Err)
			s.End()
			rt.Fatalf("%s violated: %s", prop, r.Err)
		}
		if n%2000 == 0 {
			s.End()
		}
	}))
}

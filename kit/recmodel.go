package verifkit

// Reference model of the recording behaviour, written from the statements of C01-C04, C12, C13 and C17
// (not from the processor's variables). Frames are identified by their accepted-frame ordinal.

const (
	MEvFrame = 0 // valid frame with motion bit
	MEvBad   = 1 // bad frame
	MEvReset = 2 // camera reset
	MEvTest  = 3 // test-recording request
)

type MEvent struct {
	Kind    int
	Motion  bool // detector result for a valid frame
	WinOpen bool // recording window open at this frame
	Refuse  bool // storage refuses a start at this frame (disk full, directory missing)
}

type MConfig struct {
	PreTrigger int // preview-secs*fps + trigger-frames - 1: frames kept before the trigger
	Trigger    int // trigger-frames (0 behaves as 1)
	MinFrames  int // min-secs*fps
	MaxFrames  int // max-secs*fps
	Continuous bool
	// outcomes of the storage check and of the file creation, asked in order whenever a start is attempted
	// (nil: always succeeds)
	Check func() bool
	Start func() bool
}

type MRecording struct {
	TriggerID int   // accepted ordinal of the trigger frame
	IDs       []int // accepted ordinals, in order
	Open      bool  // still open when the stream ended
	EndedBy   string
}

type MResult struct {
	Motion     []MRecording
	Continuous []MRecording
	Test       []MRecording
	Accepted   int
}

// RunModel predicts what each sink receives.
func RunModel(c MConfig, evs []MEvent) MResult {
	var res MResult
	trig := c.Trigger
	if trig < 1 {
		trig = 1
	}
	nextID := 0   // ordinal of the next accepted frame
	lastEnd := -1 // last frame of the previous motion recording
	run := 0      // consecutive motion frames since the last still frame / recording end
	var cur *MRecording
	written, lastMotion := 0, 0 // frames from the trigger on, offset of the last motion frame
	var cont *MRecording
	var test *MRecording
	testPending := false

	endMotion := func(by string) {
		if cur == nil {
			return
		}
		cur.EndedBy = by
		if len(cur.IDs) > 0 {
			lastEnd = cur.IDs[len(cur.IDs)-1]
		}
		res.Motion = append(res.Motion, *cur)
		cur = nil
		run = 0
	}
	for _, e := range evs {
		switch e.Kind {
		case MEvBad:
			endMotion("bad-frame")
			if cont != nil {
				cont.EndedBy = "bad-frame"
				res.Continuous = append(res.Continuous, *cont)
				cont = nil
			}
		case MEvReset:
			endMotion("reset")
		case MEvTest:
			if test == nil {
				testPending = true
			}
		case MEvFrame:
			id := nextID
			nextID++
			if e.Motion {
				run++
			} else {
				run = 0
			}
			if cur != nil {
				cur.IDs = append(cur.IDs, id)
				written++
				if e.Motion {
					lastMotion = written
				}
			} else if e.Motion && run >= trig && e.WinOpen && !e.Refuse && (c.Check == nil || c.Check()) && (c.Start == nil || c.Start()) {
				first := id - c.PreTrigger
				if first < lastEnd+1 {
					first = lastEnd + 1
				}
				if first < 0 {
					first = 0
				}
				cur = &MRecording{TriggerID: id}
				for k := first; k <= id; k++ {
					cur.IDs = append(cur.IDs, k)
				}
				written, lastMotion = 1, 1
			}
			if cur != nil {
				limit := lastMotion - 1 + c.MinFrames
				if c.MaxFrames < limit {
					limit = c.MaxFrames
				}
				if written >= limit {
					endMotion("limit")
				}
			}
			if c.Continuous {
				if cont == nil {
					cont = &MRecording{TriggerID: id}
				}
				cont.IDs = append(cont.IDs, id)
				if len(cont.IDs) == c.MaxFrames+1 {
					cont.EndedBy = "limit"
					res.Continuous = append(res.Continuous, *cont)
					cont = nil
				}
			}
			if testPending && test == nil {
				test = &MRecording{TriggerID: id}
				testPending = false
			}
			if test != nil {
				test.IDs = append(test.IDs, id)
				if len(test.IDs) == 21 {
					test.EndedBy = "limit"
					res.Test = append(res.Test, *test)
					test = nil
				}
			}
		}
	}
	if cur != nil {
		cur.Open = true
		res.Motion = append(res.Motion, *cur)
	}
	if cont != nil {
		cont.Open = true
		res.Continuous = append(res.Continuous, *cont)
	}
	if test != nil {
		test.Open = true
		res.Test = append(res.Test, *test)
	}
	res.Accepted = nextID
	return res
}

PENDING_REASON = "check not yet implemented in this revision of /verif (planned in DESIGN.md; property-based testing applies)"
NOTE = "trusted base: Go toolchain, rapid v1.3.0, the third-party modules the repository links, and the reference model in /verif (validated against the repository's own example tests and by mutation runs)"
TEXT = {
 "C19": {
  "text": "generated operation sequences (capacity 1-9, <=60 ops) compared step by step with a list model of the statement; the thorough tier additionally enumerates every sequence of 11 operations for capacities 1-4. Exploration, not proof: capacities and lengths beyond the bounds are sampled only.",
  "ref": "DESIGN.md section 4, C19", "note": NOTE,
  "technique": "stateful property-based testing against a reference list model (rapid) + small-scope exhaustive enumeration",
 },
}

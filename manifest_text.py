PENDING_REASON = "check not yet implemented in this revision of /verif (planned in DESIGN.md; property-based testing applies)"
NOTE = "trusted base: Go toolchain, rapid v1.3.0, the third-party modules the repository links, and the reference model in /verif (validated against the repository's own example tests and by mutation runs)"
def _t(text, ref, tech, note=None):
    return {"text": text, "ref": ref, "technique": tech, "note": note or NOTE}

EXPL = " Exploration: the space is sampled (16 shards x tens of thousands of generated cases in the thorough tier), not exhausted; a pass means no counter-example was found within the stated generator domain."
TEXT = {
 "C01": _t("generated event histories drive a real MotionProcessor (real detector, real ring buffer); the motion sink's call trace is checked against the invariants of the statement (consecutive ids, disjoint ordered recordings, tiling when the previous end is within pre-trigger reach)." + EXPL,
           "DESIGN.md section 4, C01", "property-based testing (rapid): generated histories, history invariant on the sink trace, shrinking to a JSON replay"),
 "C02": _t("same harness as C01; the frames written at each trigger are compared with the index formula of the statement (full preview before the trigger, cut only by start-up or the previous recording's end)." + EXPL,
           "DESIGN.md section 4, C02", "property-based testing (rapid): generated histories against a closed-form oracle for the pre-trigger frames"),
 "C03": _t("same harness; every recording's length from the trigger frame is compared with the least-terminal-offset rule built from the detector's reported motion bits, including min=0, min=max and cap hits." + EXPL,
           "DESIGN.md section 4, C03", "property-based testing (rapid): generated motion patterns against a declarative length rule"),
 "C04": _t("same harness with window clock trajectories on/around the boundaries (1 ns either side, windows over midnight) and generated disk-check/start outcomes; storage must be asked exactly when the statement's conjunction holds (window evaluated by an independent closed form)." + EXPL,
           "DESIGN.md section 4, C04", "property-based testing (rapid): generated histories x clock trajectories x refusal plans against an iff-oracle on the sink trace"),
 "C05": _t("generated request/clock schedules (arbitrary order and well-formed sessions, injected clock with boundary-valued advances) against the all-pairs interval bound of the statement; plus the real MotionProcessor composed with the throttle under continuous motion." + EXPL,
           "DESIGN.md section 4, C05", "property-based testing (rapid): generated schedules with an injected clock, all-pairs interval invariant (running minimum)"),
 "C06": _t("generated caller-well-formed schedules with failing wrapped starts; model-free trace invariants, a budget sandwich derived from forwarded frames and elapsed time, and an exact counter model on frozen-clock histories." + EXPL,
           "DESIGN.md section 4, C06", "property-based testing (rapid): trace invariants + budget sandwich + exact reference model on frozen-clock histories"),
 "C07": _t("generated FFC-free streams with boundary-valued pixels; Detect() and the processor's MotionDetected callbacks are compared frame by frame with a reference detector written from the statement." + EXPL,
           "DESIGN.md section 4, C07", "property-based testing (rapid): differential against an independent reference detector"),
 "C08": _t("pairs of streams differing only in border pixels (fixed and dynamic threshold) or in sub-threshold interior pixels (fixed): detection, background, threshold and recording boundaries must be identical, also through the raw-frame Process() path." + EXPL,
           "DESIGN.md section 4, C08", "property-based testing (rapid): metamorphic relation over generated stream pairs"),
 "C09": _t("generated telemetry timelines with FFC periods of any length; invariant (no motion within 10 s of an FFC nor on the following frame) plus metamorphic pairs sharing the timeline and differing only before an FFC period / reset." + EXPL,
           "DESIGN.md section 4, C09", "property-based testing (rapid): history invariant + metamorphic pairs with a reference-detector witness for non-triviality"),
 "C10": _t("fault enumeration: generated streams are first run to completion in a child process under strace, which numbers the file-system system calls of the thread running handleConn; the child is then re-run and killed (SIGKILL injected by strace) on entering each of those calls - every call in the thorough tier (typically 50-150 per stream, 32 streams), a stratified sample in the quick tier. After each kill every *.cptv must be a complete recording equal to one of the uncrashed run's, and the real start-up clean-up must leave nothing else. Process kill only; the enumeration is complete per generated stream, streams themselves are sampled.",
           "DESIGN.md section 3.6 and 4, C10", "crash-point enumeration by fault injection (strace SIGKILL at every file-system call of generated streams) with a decode + reference-run oracle"),
 "C11": _t("generated config.toml files, camera headers and raw streams through the real ParseConfig and handleConn (over a pipe, in lock step); the finished .cptv files are decoded with the standard reader and compared with a twin processor wired by hand from the generated settings (frames, background, telemetry) and with the generated metadata (header round-trip, effective motion settings incl. camera-model defaults, threshold at trigger)." + EXPL,
           "DESIGN.md section 4, C11", "property-based testing (rapid): end-to-end differential against a hand-wired twin + metadata round-trip"),
 "C12": _t("generated event lists x fault plans over every call type of the three sinks; bracket-protocol monitors, panic capture, bounded length under failing writes, and exact recovery on a fault-free suffix." + EXPL,
           "DESIGN.md section 4, C12", "property-based testing (rapid) with fault injection on mock sinks; protocol monitor + recovery oracle"),
 "C13": _t("three layers: generated histories with planted bad frames against the reference recording model and a deletion metamorphic relation (processor, harness parser and real Lepton parser); generated raw frames of both formats against an independent bad-frame predicate and an independent telemetry decode (parsers); generated socket streams with bad frames through the real handleConn, files decoded and compared with the model, one report per bad frame." + EXPL,
           "DESIGN.md section 4, C13", "property-based testing (rapid): reference model + metamorphic deletion + independent decode, at processor, parser and socket level"),
 "C14": _t("generated camera descriptions encoded as the camera daemon does, read back under arbitrary read segmentation (round-trip, no over-consumption, truncation at every offset); generated frame/marker sequences under arbitrary segmentation through the real handleConn with the continuous recorder on, every frame must be delivered once, in order, pixel-exact, and every 'clear' must reset as the model says." + EXPL,
           "DESIGN.md section 4, C14", "property-based testing (rapid): round-trip + segmentation-independence + reference model at the socket"),
 "C15": _t("generated dynamic-threshold streams; background/threshold invariants read in-package after every frame, both on a bare detector and inside a MotionProcessor, and at every StartRecording." + EXPL,
           "DESIGN.md section 4, C15", "property-based testing (rapid): state invariants after every step"),
 "C16": _t("generated request schedules (1-4 requester goroutines with scripts over TakeSnapshot / TakeTestRecording / CameraInfo / spin / yield / sleep) against 1-3 camera connections, GOMAXPROCS 1-16, under the Go race detector; whole-frame and freshness oracle on every returned snapshot, request-free twin for the recording pipeline, stall detection, zero race reports." + EXPL + " Interleavings are those the Go scheduler produces under the generated perturbation; the harness does not own the scheduler.",
           "DESIGN.md section 4, C16", "schedule fuzzing (rapid-generated request scripts and perturbations) under the Go race detector, with a whole-frame/freshness oracle and a request-free twin"),
 "C17": _t("generated valid-frame streams with test-recording requests; exact tiling oracle for the continuous sink, 21-frame oracle for the test sink, twin runs for independence from motion/window/requests." + EXPL,
           "DESIGN.md section 4, C17", "property-based testing (rapid): exact oracle + metamorphic twins"),
 "C20": _t("generated (message, arrival time) sequences with boundary-valued gaps against the model of the statement, the periodic corollary, and (thorough) every sequence of 7 arrivals over 2 messages x 4 gap classes." + EXPL,
           "DESIGN.md section 4, C20", "property-based testing (rapid) against a reference model + small-scope exhaustive enumeration"),
 "C19": {
  "text": "generated operation sequences (capacity 1-9, <=60 ops) compared step by step with a list model of the statement; the thorough tier additionally enumerates every sequence of 11 operations for capacities 1-4. Exploration, not proof: capacities and lengths beyond the bounds are sampled only.",
  "ref": "DESIGN.md section 4, C19", "note": NOTE,
  "technique": "stateful property-based testing against a reference list model (rapid) + small-scope exhaustive enumeration",
 },
}

#!/usr/bin/env python3
"""gen_prompts.py <round> <property ids...>: write the sub-agent prompts of a seeding round to /tmp/seed/prompts/ and
create the scratch worktrees /tmp/seed/<round>-<ID> (of /repo HEAD) and output directories /tmp/seed/out/<round>-<ID>."""
import glob, json, os, subprocess, sys
V = os.path.dirname(os.path.abspath(__file__))
rnd, ids = sys.argv[1], sys.argv[2:]
props = {json.loads(l)["id"]: json.loads(l) for l in open(V + "/properties.jsonl")}
tmpl = open(V + "/seeded/PROMPTS/template.txt").read()
NOTE = ("This round, aim for the changes that are HARDEST to notice: ones that need a rare alignment (a particular interleaving of goroutines, "
        "an event landing exactly on a boundary frame, a counter or index wrapping, a value exactly at a limit, the second or later occurrence of "
        "something, a specific order of two independent events, an unusual but legal configuration value or path), so that a tester who feeds a few "
        "hundred ordinary random histories would probably not hit it. The change must still be a plausible slip, and your demonstration must "
        "construct the rare alignment deliberately so that it fails reliably with the change.\n")
os.makedirs("/tmp/seed/prompts", exist_ok=True)
for pid in ids:
    p = props[pid]
    used = []
    for d in sorted(glob.glob(V + "/seeded/%s-*" % pid)):
        f, first = None, None
        for line in open(d + "/patch.diff"):
            if line.startswith("+++ b/"):
                f = line[6:].strip()
            elif line.startswith("+") and not line.startswith("+++") and line[1:].strip() and first is None:
                first = line[1:].strip()
        if f:
            used.append("  - %s: %s" % (f, first))
    wt, out = "/tmp/seed/%s-%s" % (rnd, pid), "/tmp/seed/out/%s-%s" % (rnd, pid)
    os.makedirs(out, exist_ok=True)
    if not os.path.isdir(wt):
        subprocess.run(["git", "-C", "/repo", "worktree", "add", "-q", "--detach", wt, "HEAD"], check=True)
    t = tmpl.replace("@WT@", wt).replace("@OUT@", out).replace("@TITLE@", p["title"]).replace("@STATEMENT@", p["statement"]).replace("@QUANT@", p["quantifier"]["text"])
    note = "NOTE FOR THIS ROUND: earlier rounds already used the following changes (file: first added line); do something different in kind and location:\n" + "\n".join(used) + "\n" + NOTE + "\n"
    t = t.replace("Your task: produce TWO", note + "Your task: produce TWO", 1)
    open("/tmp/seed/prompts/%s-%s.txt" % (rnd, pid), "w").write(t)
    print(pid, wt, len(used), "earlier changes listed")

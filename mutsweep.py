#!/usr/bin/env python3
"""mutsweep.py [--workers N] [--files f1,f2,...] [--limit N] [--resume]

Systematic sensitivity measurement of the checks (development tool, not registered in MANIFEST.json):
generates first-order mutants of the repository's non-test sources with a handful of textual operators, and for
each one (in a private scratch worktree of /repo HEAD, never in /repo)
  1. go build ./...                 -> 'nocompile' mutants are dropped
  2. the repository's own suite     -> 'baseline' = killed by the existing tests (not interesting here)
  3. the quick tier of the checks mapped to the mutated file, most likely first, stopping at the first
     that reports a violation       -> 'killed:<ID>'
  4. survivors are listed for triage (equivalent mutant, behaviour outside every listed property, or a gap).
Results: mutation/results.jsonl (one line per mutant), mutation/SUMMARY.md.
"""
import json, os, re, subprocess, sys, threading, queue, time, hashlib

V = os.path.dirname(os.path.abspath(__file__))
ENV = dict(os.environ, GOFLAGS="-mod=mod", GOPROXY="off", GOSUMDB="off", GOTOOLCHAIN="local")
OUT = os.path.join(V, "mutation")

MAP = {
    "motion/motionprocessor.go": ["C01", "C03", "C02", "C04", "C12", "C17", "C13", "C20", "C15", "C06", "C14", "C16"],
    "motion/motion.go": ["C07", "C09", "C08", "C15", "C01", "C13", "C11"],
    "motion/frameloop.go": ["C19", "C02", "C01", "C13", "C16"],
    "motion/motionconfig.go": ["C07", "C11"],
    "throttle/throttled_recorder.go": ["C05", "C06", "C11", "C17"],
    "throttle/config.go": ["C05", "C06"],
    "throttle/throttled_event_recorder.go": ["C05", "C17", "C13"],
    "cmd/thermal-recorder/service.go": ["C16", "C13"],
    "leptondController/leptondController.go": ["C13", "C16", "C11"],
    "loglimiter/loglimiter.go": ["C20"],
    "headers/headerinfo.go": ["C14", "C11", "C13"],
    "headers/headers.go": ["C14"],
    "recorder/recorderconfig.go": ["C04", "C11", "C01", "C17"],
    "recorder/recorder.go": ["C04", "C11"],
    "cmd/thermal-recorder/boson.go": ["C13", "C11", "C14"],
    "cmd/thermal-recorder/config.go": ["C11", "C04", "C05", "C13", "C17"],
    "cmd/thermal-recorder/cptvfilerecorder.go": ["C11", "C13", "C17", "C04", "C10", "C14"],
    "cmd/thermal-recorder/main.go": ["C14", "C13", "C11", "C17", "C04", "C05", "C16", "C10"],
    "cmd/thermal-recorder/snapshot.go": ["C16", "C17", "C10"],
    "cmd/thermal-writer/main.go": ["C18"],
    "cmd/thermal-writer/thermalraw.go": ["C18"],
    "cmd/thermal-writer/bufferedfile.go": ["C18"],
}

SKIP_LINE = re.compile(r'^\s*(//|import\b|package\b|"|\)|\(|log\.|fmt\.Print|logger\.|mp\.log\.|case\s+<-time|type\b|var\s+version)')


def mask(line):
    """strings, runes and trailing comments replaced by blanks (same length)"""
    out, i, n = [], 0, len(line)
    while i < n:
        ch = line[i]
        if ch == '/' and i + 1 < n and line[i + 1] == '/':
            out.append(' ' * (n - i))
            break
        if ch in '"`\'':
            j = i + 1
            while j < n and line[j] != ch:
                if line[j] == '\\' and ch != '`':
                    j += 1
                j += 1
            out.append(' ' * (min(j, n - 1) - i + 1))
            i = j + 1
            continue
        out.append(ch)
        i += 1
    return ''.join(out)[:n]


REL = [(r'(?<![<>=!:+\-*/&|^%])<=(?![=])', '<'), (r'(?<![<>=!:+\-*/&|^%])>=(?![=])', '>'),
       (r'(?<![<>=!\-])<(?![<=\-])', '<='), (r'(?<![<>=!\-])>(?![>=])', '>='),
       (r'==', '!='), (r'!=', '=='), (r'&&', '||'), (r'\|\|', '&&'),
       (r'(?<=[\w\)\]]) \+ (?=[\w\(])', ' - '), (r'(?<=[\w\)\]]) - (?=[\w\(])', ' + '),
       (r'(?<=[\w\)\]])\+(?=[\w\(])', '-'), (r'(?<=[\w\)\]])-(?=[\w\(])', '+'),
       (r'\+\+', '--'), (r'\+=', '-='), (r'-=', '+='),
       (r'(?<=[\w\)\]]) \* (?=[\w\(])', ' / '), (r'(?<=[\w\)\]]) / (?=[\w\(])', ' * '),
       (r'\btrue\b', 'false'), (r'\bfalse\b', 'true')]


def mutants_of(path, rel):
    src = open(path).read().split('\n')
    in_block_comment = False
    in_import = False
    in_const_doc = False
    for ln, line in enumerate(src):
        s = line.strip()
        if in_block_comment:
            if '*/' in s:
                in_block_comment = False
            continue
        if s.startswith('/*'):
            in_block_comment = '*/' not in s
            continue
        if s.startswith('import ('):
            in_import = True
            continue
        if in_import:
            if s == ')':
                in_import = False
            continue
        if not s or SKIP_LINE.match(line):
            continue
        m = mask(line)
        # operator replacements
        for pat, rep in REL:
            for mt in re.finditer(pat, m):
                new = line[:mt.start()] + rep + line[mt.end():]
                yield ln, "op %s->%s" % (mt.group(0).strip(), rep.strip()), new
        # integer literals
        for mt in re.finditer(r'(?<![\w\.])(\d+)(?![\w\.])', m):
            n = int(mt.group(1))
            for v in ([n + 1] if n != 1 else [0, 2]) + ([n - 1] if n > 1 else []):
                yield ln, "const %d->%d" % (n, v), line[:mt.start()] + str(v) + line[mt.end():]
        # negated condition
        mt = re.match(r'^(\s*(?:\} else )?if )(.+)( \{\s*)$', line)
        if mt and ';' not in mask(mt.group(2)) and ':=' not in mt.group(2):
            yield ln, "negate-if", mt.group(1) + "!(" + mt.group(2) + ")" + mt.group(3)
        # statement deletion
        if re.match(r'^[\w\.\[\]\*]+\(.*\)$', s) or re.match(r'^[\w\.\[\]\*]+(\[[^\]]*\])?\s*(=|\+=|-=|\+\+|--)(\s|$)', s) and ':=' not in s:
            if not s.startswith(('return', 'go ', 'panic(')):
                yield ln, "delete-stmt", re.match(r'^\s*', line).group(0) + "_ = 0"
        if s.startswith('defer ') and s.endswith(')'):
            yield ln, "delete-defer", re.match(r'^\s*', line).group(0) + "_ = 0"
        if s == 'continue' or s == 'break':
            yield ln, "delete-" + s, re.match(r'^\s*', line).group(0) + "_ = 0"
        if re.match(r'^return (err|fmt\.Errorf\(.*\)|errors\.New\(.*\))$', s):
            yield ln, "return-nil", re.match(r'^\s*', line).group(0) + "return nil"
        mt = re.match(r'^(\s*)return (.+), (err|fmt\.Errorf\(.*\))$', line)
        if mt:
            yield ln, "return-nil-err", mt.group(1) + "return " + mt.group(2) + ", nil"


def sh(cmd, cwd, timeout, env=ENV):
    try:
        p = subprocess.run(cmd, cwd=cwd, env=env, capture_output=True, text=True, timeout=timeout, shell=isinstance(cmd, str))
        return p.returncode, p.stdout + p.stderr
    except subprocess.TimeoutExpired as e:
        return 124, "TIMEOUT"


def worker(k, q, lock, resf, head):
    wt = "/tmp/mw%d" % k
    work = "/tmp/mwork%d" % k
    if not os.path.isdir(wt):
        subprocess.run(["git", "-C", "/repo", "worktree", "add", "-q", "--detach", wt, head], check=True)
    sh("git checkout -q -- . && git clean -fdq && git checkout -q --detach " + head, wt, 60)
    env = dict(ENV, VERIF_REPO=wt, VERIF_WORK=work)
    while True:
        try:
            m = q.get_nowait()
        except queue.Empty:
            break
        rel, ln, kind, new = m["file"], m["line"], m["kind"], m["new"]
        path = os.path.join(wt, rel)
        orig = open(path).read()
        lines = orig.split('\n')
        old = lines[ln]
        lines[ln] = new
        open(path, "w").write('\n'.join(lines))
        rec = dict(m, old=old.strip(), new=new.strip(), line=ln + 1)
        t0 = time.time()
        try:
            rc, out = sh(["go", "build", "./..."], wt, 300)
            if rc != 0:
                rec["status"] = "nocompile"
                continue
            rc, out = sh(["go", "vet", "./" + os.path.dirname(rel)], wt, 300)
            envb = dict(ENV)
            envb.pop("GOFLAGS")
            rc, out = sh(["go", "test", "-vet=off", "-count=1", "-timeout", "120s", "./..."], wt, 200, envb)
            if rc != 0:
                rec["status"] = "baseline"
                continue
            rec["status"] = "survived"
            rec["checks"] = {}
            for pid in MAP[rel] + (m.get("extra") or []):
                rc, out = sh([os.path.join(V, "check"), pid, "quick"], V, 1500, env)
                msg = ""
                ls = out.splitlines()
                for i, l in enumerate(ls):
                    if l.startswith("VIOLATION") and i > 0 and ls[i - 1].startswith("  ") and not msg:
                        msg = ls[i - 1].strip()[:200]
                rec["checks"][pid] = rc
                if rc == 1:
                    rec["status"] = "killed:" + pid
                    rec["message"] = msg or ("race report" if "race-" in out else "violation")
                    break
                if rc != 0:
                    rec.setdefault("infra", []).append(pid + ": " + (ls[-1] if ls else "")[:160])
        finally:
            open(path, "w").write(orig)
            rec["secs"] = round(time.time() - t0, 1)
            with lock:
                resf.write(json.dumps(rec) + "\n")
                resf.flush()
                print("%-45s:%-4d %-22s %-14s %s" % (rel, ln + 1, kind, rec.get("status"), rec.get("new", "")[:60]), flush=True)


def main():
    args = sys.argv[1:]
    workers, files, limit, resume, extra = 4, None, None, False, []
    while args:
        a = args.pop(0)
        if a == "--workers":
            workers = int(args.pop(0))
        elif a == "--files":
            files = args.pop(0).split(",")
        elif a == "--limit":
            limit = int(args.pop(0))
        elif a == "--resume":
            resume = True
        elif a == "--extra":
            extra = args.pop(0).split(",")
        elif a == "--rerun-survivors":
            resume = "survivors"
        elif a == "--summary":
            summary()
            return
    os.makedirs(OUT, exist_ok=True)
    head = subprocess.run(["git", "-C", "/repo", "rev-parse", "--short", "HEAD"], capture_output=True, text=True).stdout.strip()
    done = set()
    respath = os.path.join(OUT, "results.jsonl")
    if resume == "survivors":
        # the mutants that no check reported when they were last tried, against the checks as they are now
        last = {}
        for l in open(respath):
            d = json.loads(l)
            last[(d["file"], d["line"], d["kind"], d["new"])] = d
        ms = []
        for d in last.values():
            if d["status"] == "survived" and (not files or d["file"] in files):
                src = open(os.path.join("/repo", d["file"])).read().split("\n")
                old = src[d["line"] - 1]
                if old.strip() != d["old"]:
                    continue  # the line has changed since (a repair in /repo)
                ind = old[:len(old) - len(old.lstrip())]
                ms.append({"file": d["file"], "line": d["line"] - 1, "kind": d["kind"], "new": ind + d["new"], "head": head, "extra": extra})
        files = []
    elif resume and os.path.exists(respath):
        for l in open(respath):
            d = json.loads(l)
            done.add((d["file"], d["line"], d["kind"], d["new"]))
    if resume != "survivors":
        ms = []
    for rel in ([] if resume == "survivors" else (files or list(MAP))):
        seen = set()
        for ln, kind, new in mutants_of(os.path.join("/repo", rel), rel):
            key = (rel, ln + 1, kind, new.strip())
            if new.strip() == "" or key in seen or key in done:
                continue
            seen.add(key)
            ms.append({"file": rel, "line": ln, "kind": kind, "new": new, "head": head, "extra": extra})
    if limit:
        import random
        random.Random(1).shuffle(ms)
        ms = ms[:limit]
    print("%d mutants" % len(ms), flush=True)
    q = queue.Queue()
    for m in ms:
        q.put(m)
    lock = threading.Lock()
    with open(respath, "a") as resf:
        ts = [threading.Thread(target=worker, args=(k, q, lock, resf, head)) for k in range(workers)]
        for t in ts:
            t.start()
        for t in ts:
            t.join()
    for k in range(workers):
        subprocess.run(["git", "-C", "/repo", "worktree", "remove", "--force", "/tmp/mw%d" % k])
        subprocess.run(["rm", "-rf", "/tmp/mwork%d" % k])
    summary()


def summary():
    rows = [json.loads(l) for l in open(os.path.join(OUT, "results.jsonl"))]
    # the last record per mutant wins (re-runs after a check was strengthened)
    last = {}
    for r in rows:
        last[(r["file"], r["line"], r["kind"], r["new"])] = r
    rows = list(last.values())
    by = {}
    for r in rows:
        f = by.setdefault(r["file"], {"nocompile": 0, "baseline": 0, "killed": 0, "survived": 0})
        st = r["status"].split(":")[0]
        f[st] += 1
    with open(os.path.join(OUT, "SUMMARY.md"), "w") as f:
        f.write("# First-order mutants vs. the quick tier\n\nGenerated by `../mutsweep.py` (operators: relational / boolean / arithmetic operator swaps, integer literal +-1, "
                "negated `if`, deleted statement / defer / continue / break, `return err` -> `return nil`). `baseline` = killed by the repository's own tests; "
                "`killed` = survives those and is reported by at least one of the checks mapped to the file; `survived` = reported by none (triaged below).\n\n"
                "| file | compiled | killed by the repository's tests | killed only by the checks | survived |\n|---|---|---|---|---|\n")
        tot = [0, 0, 0, 0]
        for k in sorted(by):
            b = by[k]
            c = b["baseline"] + b["killed"] + b["survived"]
            f.write("| %s | %d | %d | %d | %d |\n" % (k, c, b["baseline"], b["killed"], b["survived"]))
            tot = [tot[0] + c, tot[1] + b["baseline"], tot[2] + b["killed"], tot[3] + b["survived"]]
        f.write("| **total** | %d | %d | %d | %d |\n\n" % tuple(tot))
        f.write("## Survivors\n\n| file:line | operator | mutated line | triage |\n|---|---|---|---|\n")
        tri = {}
        tp = os.path.join(OUT, "triage.json")
        if os.path.exists(tp):
            tri = json.load(open(tp))
        for r in sorted(rows, key=lambda r: (r["file"], r["line"])):
            if r["status"] == "survived":
                key = "%s:%d:%s:%s" % (r["file"], r["line"], r["kind"], hashlib.md5(r["new"].encode()).hexdigest()[:6])
                f.write("| %s:%d | %s | `%s` | %s |\n" % (r["file"], r["line"], r["kind"], r["new"].replace("|", "\\|")[:110], tri.get(key, "")))
    print(json.dumps(by, indent=1))


if __name__ == "__main__":
    main()
